"""Reference C-ABI descriptors computed from the Spec, and readers that interpret the native declarations
emitted by the Dart (dart:ffi) and Kotlin (JNA) backends into the same descriptor trees.

Descriptor forms: ("i", bits, signed) ("usize",) ("isize",) ("f32",) ("f64",) ("bool",) ("char",) ("enum",)
("ptr",) ("void",) ("slice",) ("cb",) ("struct", (fields...)) ("union", (members...))"""
import os
import re

from spec import INTS


# --------------------------------------------------------------------------------------------- reference

def expected(prog, t):
    k = t[0]
    if k == "prim":
        p = t[1]
        if p in ("usize", "isize"):
            return (p,)
        if p in INTS:
            return ("i", INTS[p][0], INTS[p][1])
        if p == "DiplomatByte":
            return ("i", 8, False)
        if p in ("f32", "f64", "bool"):
            return (p,)
        return ("char",)
    if k == "enum":
        return ("enum",)
    if k == "struct":
        return ("struct", tuple(expected(prog, ft) for fn, ft in prog.find(t[1]).fields))
    if k in ("oref", "obox", "write"):
        return ("ptr",)
    if k == "opt":
        if t[1][0] in ("oref", "obox"):
            return ("ptr",)
        return result_desc(prog, t[1], ("unit",))
    if k == "result":
        return result_desc(prog, t[1], t[2])
    if k in ("slice", "oslice", "str", "ostr", "strs"):
        return ("slice",)
    if k == "cb":
        # DiplomatCallback<R> { data, run_callback: extern "C" fn(*mut c_void, args...) -> R, destructor }
        return ("struct", (("ptr",), ("fn", (("ptr",),) + tuple(expected(prog, a) for a in t[1]), expected(prog, t[2])), ("fnptr",)))
    if k == "tr":
        # DiplomatTraitStruct_T { data, vtable: T_VTable { destructor, size, alignment, run_<m>_callback... } }
        fns = tuple(("fn", (("ptr",),) + tuple(expected(prog, a) for a in margs), expected(prog, mret)) for _, _, margs, mret in t[2])
        return ("struct", (("ptr",), ("struct", (("fnptr",), ("word",), ("word",)) + fns)))
    if k == "unit":
        return ("void",)
    if k == "ordering":
        return ("i", 8, True)
    raise ValueError(t)


def result_desc(prog, ok, err):
    members = tuple(expected(prog, x) for x in (ok, err) if x != ("unit",))
    if members:
        return ("struct", (("union", members), ("bool",)))
    return ("struct", (("bool",),))


def method_desc(prog, owner, m):
    params = []
    if m.self_kind:
        params.append(("ptr",) if owner.kind == "opaque" else expected(prog, (owner.kind, owner.name)))
    for pn, pt in m.params:
        params.append(expected(prog, pt))
    return params, expected(prog, m.ret)


def normalise(d):
    if d[0] == "fn":
        return ("fn", tuple(normalise(x) for x in d[1]), normalise(d[2]))
    if d[0] in ("struct", "union"):
        inner = tuple(normalise(x) for x in d[1])
        inner = tuple(x for x in inner if x != ("union", ()))          # an empty union occupies nothing
        if d[0] == "struct" and inner == (("ptr",), ("usize",)):
            return ("slice",)
        return (d[0], inner)
    return d


def compatible(exp, obs, lang, in_field=False):
    """Is the observed declaration ABI-equal to the expected one? Stated allowances only."""
    exp, obs = normalise(exp), normalise(obs)
    if exp == obs:
        return True
    if exp == ("char",):
        return obs == ("i", 32, False) or (lang == "kotlin" and obs == ("i", 32, True))   # Kotlin has no unsigned 32-bit carrier for chars
    if exp == ("enum",):
        return obs == ("i", 32, True)
    if exp == ("bool",) and lang == "kotlin":
        return obs in (("bool",), ("i", 8, True))          # Boolean for parameters, Byte for fields and flags
    if exp[0] in ("struct", "union") and obs[0] == exp[0] and len(exp[1]) == len(obs[1]):
        return all(compatible(a, b, lang, True) for a, b in zip(exp[1], obs[1]))
    if exp == ("word",):
        return obs in (("usize",), ("ptr",))       # a trait vtable's size / alignment: any pointer-sized carrier (Kotlin declares Pointer)
    if exp[0] == "fn" and obs[0] == "fn" and len(exp[1]) == len(obs[1]):
        return all(compatible(a, b, lang, False) for a, b in zip(exp[1], obs[1])) and compatible(exp[2], obs[2], lang, False)
    return False


def mismatches(exp, obs, lang, in_field=False, path=""):
    """Leaf-level disagreements between two descriptors: [(path, expected leaf, observed leaf)] (empty iff compatible)."""
    e, o = normalise(exp), normalise(obs)
    if compatible(e, o, lang, in_field):
        return []
    if e[0] in ("struct", "union") and o[0] == e[0] and len(e[1]) == len(o[1]):
        out = []
        for i, (a, b) in enumerate(zip(e[1], o[1])):
            out += mismatches(a, b, lang, True, "%s.%d" % (path, i))
        return out
    if e[0] == "fn" and o[0] == "fn" and len(e[1]) == len(o[1]):
        out = []
        for i, (a, b) in enumerate(zip(e[1], o[1])):
            out += mismatches(a, b, lang, False, "%s(arg%d)" % (path, i))
        return out + mismatches(e[2], o[2], lang, False, path + "(ret)")
    return [(path, e, o)]


def show(d):
    d = normalise(d)
    if d[0] == "i":
        return "%s%d" % ("i" if d[2] else "u", d[1])
    if d[0] in ("struct", "union"):
        return "%s{%s}" % (d[0], ",".join(show(x) for x in d[1]))
    if d[0] == "fn":
        return "fn(%s)->%s" % (",".join(show(x) for x in d[1]), show(d[2]))
    if d[0] == "?":
        return "?%s" % (d[1],)
    return d[0]


def split_top(s):
    out, depth, cur = [], 0, ""
    for ch in s:
        if ch in "<(":
            depth += 1
        elif ch in ">)":
            depth -= 1
        if ch == "," and depth == 0:
            out.append(cur.strip())
            cur = ""
        else:
            cur += ch
    if cur.strip():
        out.append(cur.strip())
    return out


# --------------------------------------------------------------------------------------------- Dart

DART_PRIM = {"Int8": ("i", 8, True), "Uint8": ("i", 8, False), "Int16": ("i", 16, True), "Uint16": ("i", 16, False), "Int32": ("i", 32, True),
             "Uint32": ("i", 32, False), "Int64": ("i", 64, True), "Uint64": ("i", 64, False), "IntPtr": ("isize",), "Size": ("usize",),
             "Float": ("f32",), "Double": ("f64",), "Bool": ("bool",), "Void": ("void",)}


class DartReader:
    def __init__(self, outdir):
        self.classes = {}
        self.natives = {}
        txt = ""
        for f in sorted(os.listdir(outdir)):
            if f.endswith(".dart"):
                txt += open(os.path.join(outdir, f)).read() + "\n"
        for m in re.finditer(r"final class (\w+) extends ffi\.(Struct|Union) \{(.*?)\n\}", txt, re.S):
            name, kind, body = m.groups()
            fields = []
            for fm in re.finditer(r"(?:@ffi\.(\w+)\(\)\s*)?external\s+([\w.<>?]+)\s+(\w+);", body):
                ann, ty, fname = fm.groups()
                fields.append((fname, ann, ty))
            self.classes[name] = (kind, fields)
        for m in re.finditer(r"@ffi\.Native<(.*?) Function\((.*?)\)>\((?:isLeaf: \w+, )?symbol: '([^']+)'", txt, re.S):
            ret, args, sym = m.groups()
            self.natives[sym] = (split_top(args), ret.strip())

    def resolve(self, ty, ann=None):
        if ann:
            return DART_PRIM.get(ann, ("?", ann))
        if ty.startswith("ffi.Pointer"):
            return ("ptr",)
        if ty.startswith("ffi."):
            return DART_PRIM.get(ty[4:], ("?", ty))
        if ty in self.classes:
            kind, fields = self.classes[ty]
            return ("struct" if kind == "Struct" else "union", tuple(self.resolve(t, a) for _, a, t in fields))
        return ("?", ty)

    def function(self, sym):
        if sym not in self.natives:
            return None
        args, ret = self.natives[sym]
        return [self.resolve(a) for a in args], self.resolve(ret)

    def struct(self, name):
        return self.resolve("_%sFfi" % name) if "_%sFfi" % name in self.classes else None


# --------------------------------------------------------------------------------------------- Kotlin

KT_PRIM = {"UByte": ("i", 8, False), "UShort": ("i", 16, False), "UInt": ("i", 32, False), "ULong": ("i", 64, False), "Byte": ("i", 8, True), "Short": ("i", 16, True), "Int": ("i", 32, True), "Long": ("i", 64, True), "FFIUint8": ("i", 8, False),
           "FFIUint16": ("i", 16, False), "FFIUint32": ("i", 32, False), "FFIUint64": ("i", 64, False), "FFISizet": ("usize",), "FFIIsizet": ("isize",),
           "Float": ("f32",), "Double": ("f64",), "Boolean": ("bool",), "Pointer": ("ptr",), "Pointer?": ("ptr",), "Unit": ("void",)}


class KotlinReader:
    def __init__(self, outdir):
        self.classes = {}
        self.natives = {}
        txt = ""
        for r, _, fs in os.walk(outdir):
            for f in sorted(fs):
                if f.endswith(".kt"):
                    txt += open(os.path.join(r, f)).read() + "\n"
        for m in re.finditer(r"class (\w+)\s*:\s*(Structure\(\), Structure\.ByValue|Union\(\))\s*\{(.*?)\n\}", txt, re.S):
            name, kind, body = m.groups()
            fields = {}
            for fm in re.finditer(r"@JvmField\s+(?:internal\s+)?var\s+(\w+)\s*:\s*([\w?]+)", body):
                fields[fm.group(1)] = fm.group(2)
            order = re.search(r"listOf\(([^)]*)\)", body)
            if kind.startswith("Structure"):
                names = [x.strip().strip('"') for x in order.group(1).split(",")] if order and order.group(1).strip() else []
                self.classes[name] = ("struct", [(n, fields.get(n, "?missing")) for n in names], set(fields) - set(names))
            else:
                self.classes[name] = ("union", list(fields.items()), set())
        # JNA callback interfaces: the native signature of a callback's run function / a trait's vtable entry
        self.runners = {}
        for m in re.finditer(r"internal interface (Runner_\w+)\s*:\s*Callback\s*\{\s*fun invoke\((.*?)\)\s*:\s*([\w?]+)", txt, re.S):
            name, args, ret = m.groups()
            self.runners[name] = ([a.split(":", 1)[1].strip() for a in split_top(args)] if args.strip() else [], ret)
        for blk in re.findall(r"internal interface \w+Lib: Library \{(.*?)\n\}", txt, re.S):
            for m in re.finditer(r"fun (\w+)\((.*?)\)(?:\s*:\s*([\w?]+))?\s*$", blk, re.M):
                sym, args, ret = m.groups()
                ret = ret or "Unit"
                self.natives[sym] = ([a.split(":", 1)[1].strip() for a in split_top(args)] if args.strip() else [], ret)

    def resolve(self, ty):
        if ty in KT_PRIM:
            return KT_PRIM[ty]
        if ty == "Callback":
            return ("fnptr",)
        if ty in self.runners:
            args, ret = self.runners[ty]
            return ("fn", tuple(self.resolve(a) for a in args), self.resolve(ret))
        if ty in self.classes:
            kind, fields, extra = self.classes[ty]
            if extra:
                return ("?", "%s declares fields %s outside getFieldOrder" % (ty, sorted(extra)))
            return (kind, tuple(self.resolve(t) for _, t in fields))
        return ("?", ty)

    def function(self, sym):
        if sym not in self.natives:
            return None
        args, ret = self.natives[sym]
        return [self.resolve(a) for a in args], self.resolve(ret)

    def struct(self, name):
        return self.resolve(name + "Native") if name + "Native" in self.classes else None
