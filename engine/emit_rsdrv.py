"""Script -> Rust driver that lives *inside* the bridge modules (the `extern "C"` functions the proc macro
generates are private to the module) and calls them the way a foreign caller does: raw {ptr,len} views built
from bytes, memory for owned arguments obtained from diplomat_alloc, opaque handles kept as raw pointers,
callbacks as `extern "C"` functions behind a transmuted DiplomatCallback.  The resulting binary is what Miri
interprets: every conversion the macro inserts (`.into()` chains, DiplomatOption/DiplomatResult glue, the
callback transmute, write flushes, `Type_destroy(Box<T>)`) runs under Stacked Borrows, validity and leak
checking, and the merged event log is compared with the script's prediction exactly as for the C driver."""
from emit_rust import prim_lit, rust_ident
from spec import prim_bits

VFD_MOD = r'''
#[allow(dead_code)]
pub mod vfd {
    use diplomat_runtime::DiplomatWrite;
    pub struct Cx { pub o: Vec<*mut u8> }
    extern "C" {
        pub fn diplomat_buffer_write_get_bytes(this: &DiplomatWrite) -> *mut u8;
        pub fn diplomat_buffer_write_len(this: &DiplomatWrite) -> usize;
        pub fn diplomat_simple_write(buf: *mut u8, buf_size: usize) -> DiplomatWrite;
        pub fn diplomat_buffer_write_create(cap: usize) -> *mut DiplomatWrite;
        pub fn diplomat_buffer_write_destroy(this: *mut DiplomatWrite);
    }
    #[repr(C)] #[derive(Clone, Copy)] pub struct Raw<T> { pub p: *const T, pub n: usize }
    /// what a foreign caller does: hand over the bytes {pointer, length}
    pub unsafe fn view<T, S>(p: *const T, n: usize) -> S {
        assert_eq!(core::mem::size_of::<S>(), core::mem::size_of::<Raw<T>>());
        core::mem::transmute_copy(&Raw { p, n })
    }
    pub unsafe fn unview<T, S>(s: &S) -> Raw<T> {
        assert_eq!(core::mem::size_of::<S>(), core::mem::size_of::<Raw<T>>());
        core::mem::transmute_copy(s)
    }
    pub unsafe fn foreign_alloc<T: Copy>(items: &[T]) -> *mut T {
        if items.is_empty() { return core::ptr::null_mut(); }
        let p = diplomat_runtime::diplomat_alloc(items.len() * core::mem::size_of::<T>(), core::mem::align_of::<T>()) as *mut T;
        for (i, x) in items.iter().enumerate() { p.add(i).write(*x); }
        p
    }
    pub fn hexs(b: &[u8]) -> String { crate::vf::hexs(b) }
    pub unsafe fn bytes_of<'a, T>(r: Raw<T>) -> &'a [T] { if r.n == 0 { &[] } else { core::slice::from_raw_parts(r.p, r.n) } }
}
'''

SLICE_FFI = {False: "diplomat_runtime::DiplomatSlice", True: "diplomat_runtime::DiplomatSliceMut"}


class Unsupported(Exception):
    pass


def elem_ty(p):
    return {"DiplomatByte": "u8", "DiplomatChar": "u32"}.get(p, p)


class RsEmitter:
    def __init__(self, script):
        self.s = script
        self.prog = script.prog
        self.decls = {}          # module name -> [items]
        self.tmp = 0
        self.cur_mod = None

    def fresh(self, base="t"):
        self.tmp += 1
        return "%s%d" % (base, self.tmp)

    def ptr(self, h, ty, mut=False):
        return "(cx.o[%d] as *%s %s)" % (h, "mut" if mut else "const", ty)

    # ------------------------------------------------------------------ view types
    def view_ty(self, t):
        k = t[0]
        if k == "slice":
            return "%s<%s>" % (SLICE_FFI[bool(t[2])], elem_ty(t[1])), elem_ty(t[1])
        if k == "oslice":
            return "diplomat_runtime::DiplomatOwnedSlice<%s>" % elem_ty(t[1]), elem_ty(t[1])
        if k == "str":
            return {"utf8": "diplomat_runtime::DiplomatUtf8StrSlice", "ustr": "diplomat_runtime::DiplomatSlice<u8>",
                    "u16": "diplomat_runtime::DiplomatSlice<u16>"}[t[1]], "u16" if t[1] == "u16" else "u8"
        if k == "ostr":
            return {"utf8": "diplomat_runtime::DiplomatOwnedUTF8StrSlice", "ustr": "diplomat_runtime::DiplomatOwnedSlice<u8>",
                    "u16": "diplomat_runtime::DiplomatOwnedSlice<u16>"}[t[1]], "u16" if t[1] == "u16" else "u8"
        raise Unsupported(t)

    def items_of(self, t, v):
        if t[0] in ("slice", "oslice"):
            p = t[1] if t[1] != "DiplomatByte" else "u8"
            return [prim_lit(p, x) for x in v["items"]]
        ety = "u16" if t[1] == "u16" else "u8"
        return ["%d%s" % (x, ety) for x in v["data"]]

    # ------------------------------------------------------------------ arguments
    def arg(self, t, v, pre, post, m=None, pname=None, field=False):
        k = t[0]
        if k == "prim":
            return prim_lit(t[1], v)
        if k == "enum":
            return "%s::%s" % (t[1], self.prog.find(t[1]).variants[v][0])
        if k == "struct":
            s = self.prog.find(t[1])
            return "%s { %s }" % (t[1], ", ".join("%s: %s" % (rust_ident(fn), self.arg(ft, v[fn], pre, post, field=True)) for fn, ft in s.fields))
        if k == "oref":
            if v is None:
                return "None"
            e = "&%s*%s" % ("mut " if t[2] else "", self.ptr(v, t[1], t[2]))
            return "Some(%s)" % e if t[4] else e
        if k == "opt":
            inner = t[1]
            dip = field and t[2] == "dip" or not field
            if field and t[2] == "std":
                return "None" if v is None else "Some(%s)" % self.arg(inner, v[1], pre, post, m, pname, field)
            if v is None:
                return "None.into()"
            return "Some(%s).into()" % self.arg(inner, v[1], pre, post, m, pname, field)
        if k in ("slice", "str"):
            vt, ety = self.view_ty(t)
            items = self.items_of(t, v)
            if not items and v["null"]:
                return "vfd::view::<%s, %s>(core::ptr::null(), 0)" % (ety, vt)
            a = self.fresh("a")
            mut = k == "slice" and t[2]
            pre.append("let mut %s: Vec<%s> = vec![%s];" % (a, ety, ", ".join(items)))
            if mut:
                pre.append("let %s_p = %s.as_mut_ptr();" % (a, a))
                post.append(("mutslice", a, t, pname))
            else:
                pre.append("let %s_p = %s.as_ptr();" % (a, a))
            return "vfd::view::<%s, %s>(%s_p, %d)" % (ety, vt, a, len(items))
        if k in ("oslice", "ostr"):
            vt, ety = self.view_ty(t)
            items = self.items_of(t, v)
            a = self.fresh("own")
            pre.append("let %s = vfd::foreign_alloc::<%s>(&[%s]);" % (a, ety, ", ".join(items)))
            return "vfd::view::<%s, %s>(%s, %d)" % (ety, vt, a, len(items))
        if k == "strs":
            ety = "u16" if t[1] == "u16" else "u8"
            inner_vt = {"utf8": "diplomat_runtime::DiplomatUtf8StrSlice", "ustr": "diplomat_runtime::DiplomatSlice<u8>",
                        "u16": "diplomat_runtime::DiplomatSlice<u16>"}[t[1]]
            vt = "diplomat_runtime::DiplomatSlice<%s>" % inner_vt
            strs = v["strs"]
            if not strs and v["null"]:
                return "vfd::view::<vfd::Raw<%s>, %s>(core::ptr::null(), 0)" % (ety, vt)
            a = self.fresh("ss")
            pre.append("let mut %s: Vec<vfd::Raw<%s>> = Vec::new();" % (a, ety))
            for sdata in strs:
                if not sdata:
                    pre.append("%s.push(vfd::Raw { p: core::ptr::null(), n: 0 });" % a)
                    continue
                b = self.fresh("s")
                pre.append("let %s: Vec<%s> = vec![%s];" % (b, ety, ", ".join("%d%s" % (x, ety) for x in sdata)))
                pre.append("%s.push(vfd::Raw { p: %s.as_ptr(), n: %d });" % (a, b, len(sdata)))
            return "vfd::view::<vfd::Raw<%s>, %s>(%s.as_ptr(), %d)" % (ety, vt, a, len(strs))
        if k == "cb":
            return self.callback(t, v, pre, post, m, pname)
        if k == "tr":
            return self.trait_object(t, v, pre, post)
        if k == "write":
            w = self.fresh("w")
            if v["mode"] == "buffer":
                pre.append("let %s = vfd::diplomat_buffer_write_create(%d);" % (w, v["cap"]))
                post.append(("write_buffer", w))
                return "&mut *%s" % w
            pre.append("let mut %s_buf: Vec<u8> = vec![0x7eu8; %d];" % (w, v["size"]))
            pre.append("let %s_p = %s_buf.as_mut_ptr();" % (w, w))
            pre.append("let mut %s_w = vfd::diplomat_simple_write(%s_p, %d);" % (w, w, v["size"]))
            post.append(("write_fixed", w, v["size"]))
            return "&mut %s_w" % w
        raise Unsupported(t)

    def rs_plain_ty(self, t):
        k = t[0]
        if k == "prim":
            return elem_ty(t[1])
        if k in ("enum", "struct"):
            return t[1]
        if k == "unit":
            return "()"
        if k == "opt" and t[1][0] in ("prim", "enum", "struct"):
            return "diplomat_runtime::DiplomatOption<%s>" % self.rs_plain_ty(t[1])
        if k in ("slice", "str"):
            return self.view_ty(t)[0]
        if k == "oref" and not t[4]:
            return ("&mut %s" if t[2] else "&%s") % t[1]
        if k == "obox" and not t[2]:
            return "Box<%s>" % t[1]          # dropped when the foreign callback returns: it was given for good
        raise Unsupported(t)

    def callback(self, t, v, pre, post, m, pname):
        n = v["cb"]
        mutable = t[3]
        ret_rs = self.rs_plain_ty(t[2])
        params = ["data: *%s core::ffi::c_void" % ("mut" if mutable else "const")] + ["a%d: %s" % (i, self.rs_plain_ty(a)) for i, a in enumerate(t[1])]
        null_data = bool(v.get("null_data"))
        if null_data:
            self.decls.setdefault(self.cur_mod, []).append("static mut VF_CB_CNT_%d: i32 = 0;" % n)
        body = ["assert!(data.is_null()); let j = VF_CB_CNT_%d; VF_CB_CNT_%d = j + 1;" % (n, n) if null_data else "let cnt = data as *mut i32; let j = *cnt; *cnt = j + 1;",
                "let mut line = format!(\"CB %d#{}\", j);" % n]
        for i, a in enumerate(t[1]):
            body.append("line.push(' '); line.push_str(&%s);" % self.fmt("a%d" % i, a, None, None))
        body.append("crate::vf::log(line);")
        if t[2] != ("unit",):
            body.append("match j {")
            for j, (_, cret) in enumerate(v["inv"]):
                body.append("    %d => %s," % (j, self.arg(t[2], cret, [], [])))
            body.append("    _ => { crate::vf::log(\"CB %d called too often\".to_string()); std::process::abort() }" % n)
            body.append("}")
        self.decls.setdefault(self.cur_mod, []).append(
            "unsafe extern \"C\" fn vf_cb_run_%d(%s)%s {\n        %s\n    }" % (
                n, ", ".join(params), "" if t[2] == ("unit",) else " -> " + ret_rs, "\n        ".join(body)))
        self.decls[self.cur_mod].append(
            "unsafe extern \"C\" fn vf_cb_drop_%d(data: *mut core::ffi::c_void) { crate::vf::log(\"CBDROP %d\".to_string()); if !data.is_null() { drop(Box::from_raw(data as *mut i32)); } }" % (n, n))
        if null_data:
            sig = "unsafe extern \"C\" fn(%s)%s" % (", ".join(p.split(": ", 1)[1] for p in params), "" if t[2] == ("unit",) else " -> " + ret_rs)
            run = ("core::mem::transmute::<%s, unsafe extern \"C\" fn(*mut core::ffi::c_void, ...)%s>(vf_cb_run_%d)" % (sig, "" if t[2] == ("unit",) else " -> " + ret_rs, n))
            return "diplomat_runtime::DiplomatCallback::<%s> { data: core::ptr::null_mut(), run_callback: %s, destructor: %s }" % (
                ret_rs, run, ("Some(vf_cb_drop_%d)" % n) if v["destructor"] else "None")
        d = self.fresh("cbd")
        pre.append("let %s = Box::into_raw(Box::new(0i32));" % d)
        sig = "unsafe extern \"C\" fn(%s)%s" % (", ".join(p.split(": ", 1)[1] for p in params), "" if t[2] == ("unit",) else " -> " + ret_rs)
        run = ("core::mem::transmute::<%s, unsafe extern \"C\" fn(*mut core::ffi::c_void, ...)%s>(vf_cb_run_%d)" % (
            sig, "" if t[2] == ("unit",) else " -> " + ret_rs, n))
        if v["destructor"]:
            return ("diplomat_runtime::DiplomatCallback::<%s> { data: %s as *mut core::ffi::c_void, run_callback: %s, destructor: Some(vf_cb_drop_%d) }"
                    % (ret_rs, d, run, n))
        post.append(("freebox", d))
        return "diplomat_runtime::DiplomatCallback::<%s> { data: %s as *mut core::ffi::c_void, run_callback: %s, destructor: None }" % (ret_rs, d, run)

    def trait_object(self, t, v, pre, post):
        """Foreign implementation of a bridge trait: the macro's DiplomatTraitStruct_<T> { data, vtable } built by hand."""
        n = v["cb"]
        null_data = bool(v.get("null_data"))
        decls = self.decls.setdefault(self.cur_mod, [])
        if null_data:
            decls.append("static mut VF_TR_CNT_%d: i32 = 0;" % n)
        fields = []
        for mi, (mname, mm, margs, mret) in enumerate(t[2]):
            ret_rs = self.rs_plain_ty(mret)
            params = ["data: *const core::ffi::c_void"] + ["a%d: %s" % (i, self.rs_plain_ty(a)) for i, a in enumerate(margs)]
            body = ["assert!(data.is_null()); let j = VF_TR_CNT_%d; VF_TR_CNT_%d = j + 1;" % (n, n) if null_data else "let cnt = data as *mut i32; let j = *cnt; *cnt = j + 1;",
                    "let mut line = format!(\"CB %d#{} %s\", j);" % (n, mname)]
            for i, a in enumerate(margs):
                body.append("line.push(' '); line.push_str(&%s);" % self.fmt("a%d" % i, a, None, None))
            body.append("crate::vf::log(line);")
            if mret != ("unit",):
                body.append("match j {")
                for j, (imi, _, cret) in enumerate(v["inv"]):
                    if imi == mi:
                        body.append("    %d => %s," % (j, self.arg(mret, cret, [], [])))
                body.append("    _ => { crate::vf::log(\"CB %d %s called out of script\".to_string()); std::process::abort() }" % (n, mname))
                body.append("}")
            decls.append("unsafe extern \"C\" fn vf_tr_%d_%s(%s)%s {\n        %s\n    }" % (
                n, mname, ", ".join(params), "" if mret == ("unit",) else " -> " + ret_rs, "\n        ".join(body)))
            fields.append("run_%s_callback: vf_tr_%d_%s" % (mname, n, mname))
        decls.append("unsafe extern \"C\" fn vf_tr_drop_%d(data: *const core::ffi::c_void) { crate::vf::log(\"CBDROP %d\".to_string()); if !data.is_null() { drop(Box::from_raw(data as *mut i32)); } }" % (n, n))
        if null_data:
            d = "core::ptr::null()"
        else:
            dv = self.fresh("trd")
            pre.append("let %s = Box::into_raw(Box::new(0i32));" % dv)
            d = "%s as *const core::ffi::c_void" % dv
            if not v["destructor"]:
                post.append(("freebox", dv))
        return "DiplomatTraitStruct_%s { data: %s, vtable: %s_VTable { destructor: %s, size: 4, alignment: 4, %s } }" % (
            t[1], d, t[1], ("Some(vf_tr_drop_%d)" % n) if v["destructor"] else "None", ", ".join(fields))

    # ------------------------------------------------------------------ printing: Rust *expression* of type String
    def fmt(self, e, t, adopt, retv):
        """canonical form of expression e (a place) of (extern-side) type t; adopt: list collecting statements that
        take ownership of returned boxes."""
        k = t[0]
        if k == "prim":
            return "crate::vf::c(&%s)" % e
        if k == "enum":
            return "format!(\"{:08x}\", %s as i32)" % e
        if k == "struct":
            s = self.prog.find(t[1])
            parts = []
            for i, (fn, ft) in enumerate(s.fields):
                parts.append("\"%s%s:\".to_string() + &%s" % ("," if i else "", fn, self.fmt("%s.%s" % (e, rust_ident(fn)), ft, adopt,
                                                                                                  retv[fn] if retv is not None else None)))
            return "(\"{\".to_string() + &" + " + &".join("(%s)" % p for p in parts) + " + \"}\")" if parts else "\"{}\".to_string()"
        if k == "oref":
            if t[4]:
                return "(match &%s { Some(o) => format!(\"#{}\", o.id), None => \"N\".to_string() })" % e
            return "format!(\"#{}\", %s.id)" % e
        if k == "obox":
            if t[2]:
                s = "(match &%s { Some(o) => format!(\"#{}\", o.id), None => \"N\".to_string() })" % e
            else:
                s = "format!(\"#{}\", %s.id)" % e
            if adopt is not None and retv is not None:
                adopt.append((e, t, retv["h"]))
            return s
        if k == "opt":
            inner = t[1]
            if inner[0] in ("oref", "obox"):
                raise Unsupported(t)
            std_field = adopt is not None and False
            # extern side: DiplomatOption<inner> == DiplomatResult<inner, ()>
            return ("(match %s.as_ref() { Ok(x_) => format!(\"S({})\", %s), Err(_) => \"N\".to_string() })"
                    % (e, self.fmt("(*x_)", inner, None, None) if inner != ("unit",) else "\"()\""))
        if k == "result":
            okv = retv[1] if (retv and retv[0] == "ok") else None
            errv = retv[1] if (retv and retv[0] == "err") else None
            ok = self.fmt("(*x_)", t[1], None, None) if t[1] != ("unit",) else "\"()\""
            er = self.fmt("(*x_)", t[2], None, None) if t[2] != ("unit",) else "\"()\""
            return "(match %s.as_ref() { Ok(x_) => format!(\"O({})\", %s), Err(x_) => format!(\"E({})\", %s) })" % (e, ok, er)
        if k in ("slice", "oslice"):
            return "crate::vf::c(vfd::bytes_of(vfd::unview::<%s, _>(&%s)))" % (elem_ty(t[1]), e)
        if k in ("str", "ostr"):
            if t[1] == "u16":
                return "crate::vf::c(vfd::bytes_of(vfd::unview::<u16, _>(&%s)))" % e
            return "crate::vf::hexs(vfd::bytes_of(vfd::unview::<u8, _>(&%s)))" % e
        if k == "ordering":
            return "crate::vf::c(&%s)" % e
        if k == "unit":
            return "\"()\".to_string()"
        raise Unsupported(t)

    def has_box(self, t):
        k = t[0]
        if k == "obox":
            return True
        if k == "struct":
            return any(self.has_box(ft) for _, ft in self.prog.find(t[1]).fields)
        if k == "opt":
            return self.has_box(t[1])
        if k == "result":
            return self.has_box(t[1]) or self.has_box(t[2])
        return False

    def adopt_stmts(self, e, t, retv, out):
        """statements moving every Box reachable from the *owned* value e into cx.o (what a foreign caller keeps)."""
        k = t[0]
        if k == "obox":
            if retv is None:
                out.append("drop(%s);" % e) if t[2] else None
                return
            if t[2]:
                out.append("cx.o[%d] = Box::into_raw(%s.unwrap()) as *mut u8;" % (retv["h"], e))
            else:
                out.append("cx.o[%d] = Box::into_raw(%s) as *mut u8;" % (retv["h"], e))
        elif k == "struct":
            s = self.prog.find(t[1])
            if not self.has_box(t):
                return
            names = []
            for fn, ft in s.fields:
                names.append("%s: f_%s" % (rust_ident(fn), fn))
            out.append("let %s { %s } = %s;" % (t[1], ", ".join(names), e))
            for fn, ft in s.fields:
                self.adopt_stmts("f_" + fn, ft, retv[fn] if retv is not None else None, out)
        elif k == "opt":
            if not self.has_box(t):
                return
            v = self.fresh("oo")
            out.append("let %s = %s.into_option();" % (v, e))
            inner = []
            if retv is not None:
                self.adopt_stmts("x_", t[1], retv[1], inner)
            else:
                inner.append("let _ = x_;")
            out.append("match %s { Some(x_) => { %s } None => {} }" % (v, " ".join(inner)))
        elif k == "result":
            if not self.has_box(t):
                return
            v = self.fresh("rr")
            out.append("let %s: Result<_, _> = %s.into();" % (v, e))
            out.append("match %s {" % v)
            for arm, pt in (("ok", t[1]), ("err", t[2])):
                inner = []
                if retv is not None and retv[0] == arm:
                    self.adopt_stmts("x_", pt, retv[1], inner)
                else:
                    inner.append("let _ = x_;")
                out.append("    %s(x_) => { %s }" % ("Ok" if arm == "ok" else "Err", " ".join(inner)))
            out.append("}")

    # ------------------------------------------------------------------ steps
    def step_fn(self, i, st):
        if st["kind"] == "destroy":
            o = st["obj"]
            t = self.prog.find(o.ty)
            self.cur_mod = self.mod_of(t)
            dtor = getattr(t, "dtor_abi_name", None) or "%s_destroy" % o.ty
            return ["%s(Box::from_raw(cx.o[%d] as *mut %s)); cx.o[%d] = core::ptr::null_mut();" % (dtor, o.h, o.ty, o.h)]
        m, owner, args, n = st["m"], st["owner"], st["args"], st["n"]
        self.cur_mod = self.mod_of(owner)
        pre, post = [], []
        cargs = []
        if m.self_kind:
            if owner.kind == "opaque":
                mut = m.self_kind[0] == "mut"
                cargs.append("&%s*%s" % ("mut " if mut else "", self.ptr(args["self"], owner.name, mut)))
            else:
                cargs.append(self.arg((owner.kind, owner.name), args["self"], pre, post))
        for pn, pt in m.params:
            cargs.append(self.arg(pt, args[pn], pre, post, m, pn))
        call = "%s(%s)" % (m.abi_name, ", ".join(cargs))
        out = ["// %s#%d" % (m.abi_name, n)] + pre
        if m.ret == ("unit",):
            out.append("%s;" % call)
            out.append("crate::vf::log(\"RET %s#%d ()\".to_string());" % (m.abi_name, n))
        else:
            out.append("let r_ = %s;" % call)
            rt = self.extern_ret(m.ret)
            out.append("crate::vf::log(format!(\"RET %s#%d {}\", %s));" % (m.abi_name, n, self.fmt("r_", rt, None, st["ret"])))
            self.adopt_stmts("r_", rt, st["ret"], out)
        for pn, pt in m.params:                      # in parameter order, as the script predicts them
            if pt[0] == "slice" and pt[2]:
                mine = [p for p in post if p[0] == "mutslice" and p[3] == pn]
                if mine:
                    out.append("crate::vf::log(format!(\"MUT %s {}\", crate::vf::c(&%s[..])));" % (pn, mine[0][1]))
                else:
                    out.append("crate::vf::log(\"MUT %s []\".to_string());" % pn)
        for p in post:
            if p[0] == "write_buffer":
                w = p[1]
                out.append("{ let b_ = vfd::diplomat_buffer_write_get_bytes(&*%s); let l_ = vfd::diplomat_buffer_write_len(&*%s); "
                           "if b_.is_null() { crate::vf::log(\"WR NULL failed=1\".to_string()); } else { "
                           "crate::vf::log(format!(\"WR {} failed=0\", crate::vf::hexs(vfd::bytes_of(vfd::Raw { p: b_ as *const u8, n: l_ })))); } "
                           "vfd::diplomat_buffer_write_destroy(%s); }" % (w, w, w))
            elif p[0] == "write_fixed":
                w, size = p[1], p[2]
                out.append("{ let b_ = &%s_w as *const diplomat_runtime::DiplomatWrite as *const u8; let len_ = *(b_.add(2 * core::mem::size_of::<usize>()) as *const usize); let failed_ = *b_.add(4 * core::mem::size_of::<usize>()); "
                           "let nul_ = if len_ < %d && *%s_p.add(len_) == 0 { 1 } else { 0 }; "
                           "crate::vf::log(format!(\"WR {} failed={} nul={}\", crate::vf::hexs(vfd::bytes_of(vfd::Raw { p: %s_p as *const u8, n: len_ })), failed_, nul_)); }"
                           % (w, size, w, w))
            elif p[0] == "freebox":
                out.append("drop(Box::from_raw(%s));" % p[1])
        return out

    def extern_ret(self, t):
        """Spec type of what the extern fn returns (Option<non-pointer> is a DiplomatOption on the wire)."""
        return t

    def mod_of(self, ty):
        for mod in self.prog.modules:
            if ty in mod.items:
                return mod.name
        raise KeyError(ty.name)

    def emit(self):
        """Fills mod.extra_src of every bridge module and returns the epilogue (vfd + main)."""
        per_mod = {}
        order = []
        for i, st in enumerate(self.s.steps):
            body = self.step_fn(i, st)
            per_mod.setdefault(self.cur_mod, []).append(
                "    pub unsafe fn vf_step_%d(cx: &mut vfd::Cx) {\n%s    }\n" % (i, "".join("        " + l + "\n" for l in body)))
            order.append((self.cur_mod, i))
        for mod in self.prog.modules:
            src = "    use crate::vfd;\n"
            src += "".join("    " + d + "\n" for d in self.decls.get(mod.name, []))
            src += "".join(per_mod.get(mod.name, []))
            mod.extra_src = src
        main = VFD_MOD + "\nfn main() {\n    let mut cx = vfd::Cx { o: vec![core::ptr::null_mut(); %d] };\n    unsafe {\n" % max(1, len(self.s.objs))
        for mn, i in order:
            main += "        %s::vf_step_%d(&mut cx);\n" % (mn, i)
        main += "    }\n    vf::log(\"END\".to_string());\n}\n"
        return main
