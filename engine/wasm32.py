"""A private wasm32-unknown-unknown sysroot built by hand from rust-src (rustup has no wasm32 std here and -Zbuild-std
cannot fetch its dependencies): libcore + a compiler_builtins stub are enough for #![no_std] ABI/layout probes."""
import os
import threading

from common import CACHE, NIGHTLY, Inconclusive, log, run

_lock = threading.Lock()
_sysroot = None

CB_STUB = '''#![feature(compiler_builtins, staged_api)]
#![compiler_builtins]
#![no_std]
#![unstable(feature = "compiler_builtins_lib", issue = "none")]
'''


def sysroot():
    global _sysroot
    if _sysroot:
        return _sysroot
    with _lock:
        if _sysroot:
            return _sysroot
        rc, ver, e = run(["rustc", "+" + NIGHTLY, "--version"], timeout=60)
        tag = "".join(c if c.isalnum() else "_" for c in ver.strip())[:60]
        root = os.path.join(CACHE, "wasm32-sysroot-" + tag)
        lib = os.path.join(root, "lib", "rustlib", "wasm32-unknown-unknown", "lib")
        if not (os.path.exists(os.path.join(lib, "libcore.rlib")) and os.path.exists(os.path.join(lib, "libcompiler_builtins.rlib"))):
            os.makedirs(lib, exist_ok=True)
            rc, o, e = run(["rustc", "+" + NIGHTLY, "--print", "sysroot"], timeout=60)
            src = os.path.join(o.strip(), "lib", "rustlib", "src", "rust", "library")
            if not os.path.isdir(src):
                raise Inconclusive("rust-src is not installed for the nightly toolchain")
            rc, o, e = run(["rustc", "+" + NIGHTLY, "--edition", "2024", "--crate-type", "rlib", "--crate-name", "core", "--target", "wasm32-unknown-unknown",
                            "-C", "opt-level=1", "-C", "panic=abort", "-Z", "force-unstable-if-unmarked", "--cap-lints", "allow",
                            os.path.join(src, "core", "src", "lib.rs"), "--out-dir", lib], timeout=900)
            if rc != 0:
                raise Inconclusive("cannot build libcore for wasm32: " + e[-500:])
            cb = os.path.join(root, "cb.rs")
            open(cb, "w").write(CB_STUB)
            rc, o, e = run(["rustc", "+" + NIGHTLY, "--edition", "2021", "--crate-type", "rlib", "--crate-name", "compiler_builtins", "--target", "wasm32-unknown-unknown",
                            "--sysroot", root, "-C", "panic=abort", "-Z", "force-unstable-if-unmarked", "--cap-lints", "allow", cb, "--out-dir", lib], timeout=300)
            if rc != 0:
                raise Inconclusive("cannot build the compiler_builtins stub for wasm32: " + e[-500:])
            log("[build] wasm32 sysroot ok")
        _sysroot = root
        return root


def compile_nostd(src, out_base, emit="llvm-ir,link", opt="1", timeout=300):
    """rustc --target wasm32-unknown-unknown for a #![no_std] cdylib. Returns (rc, stderr). Produces <out_base>.wasm / .ll"""
    return run(["rustc", "+" + NIGHTLY, "--edition", "2021", "--crate-type", "cdylib", "--target", "wasm32-unknown-unknown", "--sysroot", sysroot(),
                "-C", "panic=abort", "-C", "opt-level=" + opt, "--cap-lints", "allow", "--emit=" + emit, src, "-o", out_base + ".wasm"], timeout=timeout)[0::2]
