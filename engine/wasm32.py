"""A private wasm32-unknown-unknown sysroot built by hand from rust-src (rustup has no wasm32 std here and -Zbuild-std
cannot fetch its dependencies): libcore + a compiler_builtins stub are enough for #![no_std] ABI/layout probes."""
import os
import threading

from common import CACHE, NIGHTLY, Inconclusive, log, run

_lock = threading.RLock()
_sysroot = None

CB_STUB = '''#![feature(compiler_builtins, staged_api)]
#![compiler_builtins]
#![no_std]
#![unstable(feature = "compiler_builtins_lib", issue = "none")]
'''


def sysroot():
    global _sysroot
    if _sysroot:
        return _sysroot
    with _lock:
        if _sysroot:
            return _sysroot
        rc, ver, e = run(["rustc", "+" + NIGHTLY, "--version"], timeout=60)
        tag = "".join(c if c.isalnum() else "_" for c in ver.strip())[:60]
        root = os.path.join(CACHE, "wasm32-sysroot-" + tag)
        lib = os.path.join(root, "lib", "rustlib", "wasm32-unknown-unknown", "lib")
        if not (os.path.exists(os.path.join(lib, "libcore.rlib")) and os.path.exists(os.path.join(lib, "libcompiler_builtins.rlib"))):
            os.makedirs(lib, exist_ok=True)
            rc, o, e = run(["rustc", "+" + NIGHTLY, "--print", "sysroot"], timeout=60)
            src = os.path.join(o.strip(), "lib", "rustlib", "src", "rust", "library")
            if not os.path.isdir(src):
                raise Inconclusive("rust-src is not installed for the nightly toolchain")
            rc, o, e = run(["rustc", "+" + NIGHTLY, "--edition", "2024", "--crate-type", "rlib", "--crate-name", "core", "--target", "wasm32-unknown-unknown",
                            "-C", "opt-level=1", "-C", "panic=abort", "-Z", "force-unstable-if-unmarked", "--cap-lints", "allow",
                            os.path.join(src, "core", "src", "lib.rs"), "--out-dir", lib], timeout=900)
            if rc != 0:
                raise Inconclusive("cannot build libcore for wasm32: " + e[-500:])
            cb = os.path.join(root, "cb.rs")
            open(cb, "w").write(CB_STUB)
            rc, o, e = run(["rustc", "+" + NIGHTLY, "--edition", "2021", "--crate-type", "rlib", "--crate-name", "compiler_builtins", "--target", "wasm32-unknown-unknown",
                            "--sysroot", root, "-C", "panic=abort", "-Z", "force-unstable-if-unmarked", "--cap-lints", "allow", cb, "--out-dir", lib], timeout=300)
            if rc != 0:
                raise Inconclusive("cannot build the compiler_builtins stub for wasm32: " + e[-500:])
            log("[build] wasm32 sysroot ok")
        if not os.path.exists(os.path.join(lib, "liballoc.rlib")):
            rc, o, e = run(["rustc", "+" + NIGHTLY, "--print", "sysroot"], timeout=60)
            src = os.path.join(o.strip(), "lib", "rustlib", "src", "rust", "library")
            rc, o, e = run(["rustc", "+" + NIGHTLY, "--edition", "2024", "--crate-type", "rlib", "--crate-name", "alloc", "--target", "wasm32-unknown-unknown",
                            "--sysroot", root, "-C", "opt-level=1", "-C", "panic=abort", "-Z", "force-unstable-if-unmarked", "--cap-lints", "allow",
                            os.path.join(src, "alloc", "src", "lib.rs"), "--out-dir", lib], timeout=900)
            if rc != 0:
                raise Inconclusive("cannot build liballoc for wasm32: " + e[-500:])
            log("[build] wasm32 liballoc ok")
        _sysroot = root
        return root


def compile_nostd(src, out_base, emit="llvm-ir,link", opt="1", timeout=300):
    """rustc --target wasm32-unknown-unknown for a #![no_std] cdylib. Returns (rc, stderr). Produces <out_base>.wasm / .ll"""
    return run(["rustc", "+" + NIGHTLY, "--edition", "2021", "--crate-type", "cdylib", "--target", "wasm32-unknown-unknown", "--sysroot", sysroot(),
                "-C", "panic=abort", "-C", "opt-level=" + opt, "--cap-lints", "allow", "--emit=" + emit, src, "-o", out_base + ".wasm"], timeout=timeout)[0::2]


# --------------------------------------------------------------------------------------------------------------
# end-to-end pieces: the working tree's proc macro built with nightly (host), its runtime compiled for wasm32 with
# only the crate root substituted (the real root pulls in std on wasm32), and a support crate with the allocator,
# panic handler and the mem* symbols a no_std wasm module needs.
# --------------------------------------------------------------------------------------------------------------

SUPPORT = r'''#![no_std]
#![allow(warnings)]
extern crate alloc;
use core::alloc::{GlobalAlloc, Layout};

#[link(wasm_import_module = "env")] extern "C" { fn diplomat_console_log_js(ptr: *const u8, len: usize); }
pub fn log(s: &str) { unsafe { diplomat_console_log_js(s.as_ptr(), s.len()) } }

/// bump allocator with exact bookkeeping of live blocks: the harness asks for the balance at the end of a history
pub struct Bump;
static mut NEXT: usize = 0;
pub static mut LIVE_BLOCKS: isize = 0;
pub static mut LIVE_BYTES: isize = 0;
pub static mut TOTAL_ALLOCS: usize = 0;
unsafe impl GlobalAlloc for Bump {
    unsafe fn alloc(&self, l: Layout) -> *mut u8 {
        if NEXT == 0 { NEXT = core::arch::wasm32::memory_size(0) * 65536; }
        let start = (NEXT + l.align() - 1) & !(l.align() - 1);
        let end = start + l.size().max(1) + 8;          // 8 guard bytes after every block
        let have = core::arch::wasm32::memory_size(0) * 65536;
        if end > have {
            let pages = (end - have + 65535) / 65536;
            if core::arch::wasm32::memory_grow(0, pages) == usize::MAX { return core::ptr::null_mut(); }
        }
        NEXT = end;
        let p = start as *mut u8;
        for i in 0..l.size() { p.add(i).write(0xCD); }
        for i in 0..8 { p.add(l.size().max(1) + i).write(0xA5); }
        LIVE_BLOCKS += 1; LIVE_BYTES += l.size() as isize; TOTAL_ALLOCS += 1;
        p
    }
    unsafe fn dealloc(&self, p: *mut u8, l: Layout) {
        // guard bytes must be intact: something wrote past the end of the block otherwise
        for i in 0..8 { if p.add(l.size().max(1) + i).read() != 0xA5 { log("GUARD-CORRUPTED"); core::arch::wasm32::unreachable(); } }
        for i in 0..l.size() { p.add(i).write(0xDD); }
        LIVE_BLOCKS -= 1; LIVE_BYTES -= l.size() as isize;
    }
}
#[global_allocator] static A: Bump = Bump;
#[no_mangle] pub extern "C" fn vf_live_blocks() -> i32 { unsafe { LIVE_BLOCKS as i32 } }
#[no_mangle] pub extern "C" fn vf_total_allocs() -> i32 { unsafe { TOTAL_ALLOCS as i32 } }

#[panic_handler]
fn panic(i: &core::panic::PanicInfo) -> ! {
    let m = alloc::format!("PANIC {}", i);
    log(&m);
    core::arch::wasm32::unreachable()
}

#[no_mangle] pub unsafe extern "C" fn memcmp(a: *const u8, b: *const u8, n: usize) -> i32 {
    let mut i = 0;
    while i < n { let x = a.add(i).read_volatile(); let y = b.add(i).read_volatile(); if x != y { return x as i32 - y as i32; } i += 1; }
    0
}
#[no_mangle] pub unsafe extern "C" fn bcmp(a: *const u8, b: *const u8, n: usize) -> i32 { memcmp(a, b, n) }
#[no_mangle] pub unsafe extern "C" fn memcpy(d: *mut u8, s: *const u8, n: usize) -> *mut u8 {
    let mut i = 0; while i < n { d.add(i).write_volatile(s.add(i).read_volatile()); i += 1; } d
}
#[no_mangle] pub unsafe extern "C" fn memmove(d: *mut u8, s: *const u8, n: usize) -> *mut u8 {
    if (d as usize) <= (s as usize) { let mut i = 0; while i < n { d.add(i).write_volatile(s.add(i).read_volatile()); i += 1; } }
    else { let mut i = n; while i > 0 { i -= 1; d.add(i).write_volatile(s.add(i).read_volatile()); } }
    d
}
#[no_mangle] pub unsafe extern "C" fn memset(d: *mut u8, c: i32, n: usize) -> *mut u8 {
    let mut i = 0; while i < n { d.add(i).write_volatile(c as u8); i += 1; } d
}
'''

_e2e = None


def e2e_artifacts():
    """-> dict(macro=<libdiplomat.so built by nightly>, runtime=<libdiplomat_runtime.rlib for wasm32>, support=<libvfsupport.rlib>, deps=<host deps dir>, sysroot=...)"""
    global _e2e
    if _e2e:
        return _e2e
    with _lock:
        if _e2e:
            return _e2e
        import json
        import re
        from common import REPO, instantiate_crate, repo_target, cache_dir, repo_key
        sr = sysroot()
        d = instantiate_crate("anchor")
        tgt = repo_target("nightly")
        rc, out, err = run(["cargo", "+" + NIGHTLY, "build", "--offline", "--message-format=json", "--manifest-path", os.path.join(d, "Cargo.toml"), "--target-dir", tgt], timeout=1800)
        if rc != 0:
            raise Inconclusive("the proc macro does not build with nightly:\n" + err[-2000:])
        macro = None
        for l in out.splitlines():
            try:
                m = json.loads(l)
            except Exception:
                continue
            if m.get("reason") == "compiler-artifact" and m["target"]["name"] == "diplomat":
                macro = [f for f in m["filenames"] if f.endswith(".so")][0]
        if not macro:
            raise Inconclusive("nightly-built proc macro artifact not found")
        w = cache_dir("wasm32-e2e-" + repo_key())
        # runtime: the real lib.rs with the crate-level cfg_attr turned into #![no_std], module files taken from the tree by path,
        # and wasm_glue (std-only: panic hook, logger) replaced by an empty diplomat_init
        root = open(os.path.join(REPO, "runtime", "src", "lib.rs")).read()
        root, n1 = re.subn(r"#!\[cfg_attr\(not\(any\(target_arch = \"wasm32\"\)\), no_std\)\]", "#![no_std]", root)
        root, n2 = re.subn(r"#\[cfg\(target_arch = \"wasm32\"\)\]\s*(//[^\n]*\n)*\s*mod wasm_glue;", "#[no_mangle] unsafe extern \"C\" fn diplomat_init() {}", root)
        root, n3 = re.subn(r"^mod (\w+);", lambda m: "#[path = \"%s/runtime/src/%s.rs\"] mod %s;" % (REPO, m.group(1), m.group(1)), root, flags=re.M)
        if n1 != 1 or n2 != 1 or n3 < 4:
            raise Inconclusive("runtime/src/lib.rs no longer has the shape the wasm32 root substitution expects (%d, %d, %d)" % (n1, n2, n3))
        rp = os.path.join(w, "diplomat_runtime_root.rs")
        open(rp, "w").write(root)
        common_flags = ["--edition", "2021", "--target", "wasm32-unknown-unknown", "--sysroot", sr, "-C", "panic=abort", "-C", "opt-level=1",
                        "-C", "debug-assertions=on", "-C", "overflow-checks=on", "--cap-lints", "allow"]
        rc, o, e = run(["rustc", "+" + NIGHTLY, "--crate-type", "rlib", "--crate-name", "diplomat_runtime"] + common_flags + [rp, "--out-dir", w], timeout=600)
        if rc != 0:
            raise Inconclusive("the runtime does not build for wasm32 (no_std root): " + e[-1500:])
        sp = os.path.join(w, "vfsupport.rs")
        open(sp, "w").write(SUPPORT)
        rc, o, e = run(["rustc", "+" + NIGHTLY, "--crate-type", "rlib", "--crate-name", "vfsupport"] + common_flags + [sp, "--out-dir", w], timeout=600)
        if rc != 0:
            raise Inconclusive("the wasm32 support crate does not build: " + e[-1500:])
        _e2e = {"macro": macro, "runtime": os.path.join(w, "libdiplomat_runtime.rlib"), "support": os.path.join(w, "libvfsupport.rlib"),
                "deps": os.path.join(tgt, "debug", "deps"), "sysroot": sr, "flags": common_flags, "dir": w}
        log("[build] wasm32 e2e artifacts ok")
        return _e2e


def compile_bridge(src, out_wasm, timeout=300):
    """generated #![no_std] bridge crate -> .wasm through the real proc macro and the real runtime. -> (rc, stderr)"""
    a = e2e_artifacts()
    cmd = ["rustc", "+" + NIGHTLY, "--crate-type", "cdylib", "--crate-name", "vfprog"] + a["flags"] + [
        src, "--extern", "diplomat=" + a["macro"], "--extern", "diplomat_runtime=" + a["runtime"], "--extern", "vfsupport=" + a["support"],
        "-L", "dependency=" + a["deps"], "-L", a["dir"], "-o", out_wasm]
    rc, o, e = run(cmd, timeout=timeout)
    return rc, e
