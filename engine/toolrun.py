"""Running the real generator and the real proc macro on generated bridge crates."""
import json
import os
import re
import shutil

from common import (Inconclusive, build_tool, cache_dir, instantiate_crate, log,
                    repo_key, repo_target, run)

BACKENDS = ["c", "cpp", "js", "dart", "kotlin", "nanobind", "demo_gen"]

_anchor = None
import threading
_anchor_lock = threading.Lock()


def anchor():
    """Build the working tree's proc macro + runtime once through cargo; return artifact paths
    so that generated crates can be compiled with plain rustc (0.2 s each, 16 in parallel)."""
    global _anchor
    if _anchor:
        return _anchor
    with _anchor_lock:
        return _anchor_locked()


def _anchor_locked():
    global _anchor
    if _anchor:
        return _anchor
    d = instantiate_crate("anchor")
    tgt = repo_target("stable")
    rc, out, err = run(["cargo", "build", "--offline", "--message-format=json", "--manifest-path",
                        os.path.join(d, "Cargo.toml"), "--target-dir", tgt], timeout=1800)
    if rc != 0:
        raise Inconclusive("the proc macro / runtime do not build from the working tree:\n" + err[-3000:])
    arts = {}
    for l in out.splitlines():
        try:
            m = json.loads(l)
        except Exception:
            continue
        if m.get("reason") == "compiler-artifact":
            n = m["target"]["name"].replace("-", "_")
            if n in ("diplomat", "diplomat_runtime"):
                for f in m["filenames"]:
                    if f.endswith((".so", ".rlib")):
                        arts[n] = f
    if "diplomat" not in arts or "diplomat_runtime" not in arts:
        raise Inconclusive("could not locate macro/runtime artifacts")
    arts["deps"] = os.path.join(tgt, "debug", "deps")
    _anchor = arts
    return arts


def run_id():
    return os.environ.get("VF_RUN", "adhoc")


def workdir(*parts):
    p = cache_dir("work", repo_key(), run_id(), *parts)
    return p


def fresh_dir(p):
    if os.path.exists(p):
        shutil.rmtree(p)
    os.makedirs(p)
    return p


def rustc_lib(src, out, crate_type="staticlib", crate_name="vfprog", extra=None, timeout=300):
    a = anchor()
    cmd = ["rustc", "--edition", "2021", "--crate-type", crate_type, "--crate-name", crate_name,
           "-C", "opt-level=0", "-C", "debuginfo=1", "-C", "debug-assertions=on", "--cap-lints", "allow", src,
           "--extern", "diplomat=" + a["diplomat"], "--extern", "diplomat_runtime=" + a["diplomat_runtime"],
           "-L", "dependency=" + a["deps"], "-o", out] + (extra or [])
    return run(cmd, timeout=timeout)


def run_tool(backend, entry, outdir, config_file=None, configs=(), cwd=None, timeout=120, extra=()):
    """Run diplomat-tool as a user would. Returns (rc, stdout, stderr)."""
    tool = build_tool()
    cmd = [tool, backend, outdir, "--entry", entry, "--config-file",
           config_file or os.path.join(os.path.dirname(entry), "no-such-config.toml"), "-s"]
    for c in configs:
        cmd += ["--config", c]
    cmd += list(extra)
    return run(cmd, cwd=cwd or os.path.dirname(entry), timeout=timeout, env={"RUST_BACKTRACE": "0"})


PANIC_RE = re.compile(r"thread '[^']*'(?: \(\d+\))? panicked at ([^:\n]+):(\d+):(\d+):\n([^\n]*)")


def classify_tool(rc, err):
    """-> ("ok"|"lowering"|"gen_errors"|"panic"|"signal"|"timeout"|"other", detail)"""
    if rc == -999:
        return "timeout", ""
    m = PANIC_RE.search(err)
    if m:
        return "panic", {"file": m.group(1), "line": int(m.group(2)), "msg": m.group(4).strip()}
    if rc == 0:
        return "ok", ""
    if rc < 0:
        return "signal", rc
    if "Lowering error in" in err:
        return "lowering", re.findall(r"Lowering error in (.*?): (.*)", err)
    if "Found errors whilst generating" in err:
        return "gen_errors", err
    return "other", err[-500:]
