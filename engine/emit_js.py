"""Script -> ES module that drives the generated JS bindings exactly as a user would (documented class API from the
.d.ts files: static/instance methods in lowerCamelCase, structs as plain objects or class instances, enums as class
statics, 64-bit integers as BigInt, slices as arrays, strings as JS strings, Option as null, Result errors as thrown
Error with `cause`) against the *real* wasm32 module built from the same bridge with the real proc macro and runtime.
It prints what it receives in the canonical form of calls.py; the Rust bodies print through `diplomat_console_log_js`
(console.log), so both sides share one ordered stream."""
import json

from spec import INTS, FLOATS, prim_bits

PRELUDE = r'''
import wasm from "./diplomat-wasm.mjs";
@IMPORTS@
const out = (s) => console.log(s);
// exceptions thrown inside FinalizationRegistry callbacks of the generated runtime surface here (node would otherwise exit):
// they are reported at the end, separately from the event log
const uncaught_ = [];
process.on("uncaughtException", (e) => { uncaught_.push(String(e && e.stack || e).split("\n").slice(0, 3).join(" | ").slice(0, 300)); });
const hx = (v, d) => (BigInt.asUintN(64, BigInt(v)) & ((1n << BigInt(4 * d)) - 1n)).toString(16).padStart(d, "0");
// 8- and 16-bit integers must arrive inside their type's range (a wasm scalar is 32 bits wide: anything else means the binding handed
// over bits that do not belong to the value); the sign of 32/64-bit unsigned values is a documented quirk and is normalised by hx
const hxn = (v, d, signed) => { const w = 4 * d, lo = signed ? -(2 ** (w - 1)) : 0, hi = signed ? 2 ** (w - 1) : 2 ** w; return (typeof v === "number" && Number.isInteger(v) && v >= lo && v < hi) ? hx(v, d) : "OUT-OF-RANGE(" + String(v) + ")"; };
const dv = new DataView(new ArrayBuffer(8));
const f32b = (bits) => { dv.setUint32(0, bits); return dv.getFloat32(0); };
const f64b = (hi, lo) => { dv.setUint32(0, hi); dv.setUint32(4, lo); return dv.getFloat64(0); };
const pf32 = (v) => { dv.setFloat32(0, v); return dv.getUint32(0).toString(16).padStart(8, "0"); };
const pf64 = (v) => { dv.setFloat64(0, v); return dv.getUint32(0).toString(16).padStart(8, "0") + dv.getUint32(4).toString(16).padStart(8, "0"); };
const pbool = (v) => (v === true || v === 1) ? "1" : ((v === false || v === 0) ? "0" : "BADBOOL(" + String(v) + ")");
const enc = new TextEncoder();
const pstr8 = (s) => '"' + Array.from(enc.encode(s)).map(b => b.toString(16).padStart(2, "0")).join("") + '"';
const pstr16 = (s) => "[" + Array.from({ length: s.length }, (_, i) => s.charCodeAt(i).toString(16).padStart(4, "0")).join(",") + "]";
const u16s = (units) => String.fromCharCode(...units);
const sleep = () => new Promise(r => setTimeout(r, 0));
const o = [];
'''


def js_ident(name):
    """lowerCamelCase as the JS backend spells method names (m0, make, vf_id -> vfId)."""
    parts = [p for p in name.split("_") if p]
    return parts[0] + "".join(p[:1].upper() + p[1:] for p in parts[1:]) if parts else name


class Unsupported(Exception):
    pass


class JsEmitter:
    def __init__(self, script, rewrap=False):
        self.s = script
        self.prog = script.prog
        # rewrap: when a method returns a reference that borrows from an opaque argument (the same Rust object), the driver
        # keeps only the returned wrapper in place of the owner's handle and forces GCs: the owner then lives on solely through
        # the lifetime edges of the wrapper, so a missing edge shows as an early DROP / reads of freed memory (C04)
        self.rewrap = rewrap

    # ------------------------------------------------------------------ argument expressions
    def prim(self, p, v):
        if p == "bool":
            return "true" if v else "false"
        if p == "f32":
            return "f32b(0x%08x)" % (v & 0xFFFFFFFF)
        if p == "f64":
            return "f64b(0x%08x, 0x%08x)" % ((v >> 32) & 0xFFFFFFFF, v & 0xFFFFFFFF)
        if p in ("DiplomatChar", "char"):
            return "0x%x" % v
        if p == "DiplomatByte":
            return str(v)
        w, signed = INTS[p]
        v &= (1 << w) - 1
        if p in ("i64", "u64"):
            return "BigInt.as%sN(64, 0x%xn)" % ("Int" if signed else "Uint", v)
        if signed and v >= 1 << (w - 1):
            v -= 1 << w
        return str(v)

    def arg(self, t, v):
        k = t[0]
        if k == "prim":
            return self.prim(t[1], v)
        if k == "enum":
            return "%s.%s" % (t[1], self.prog.find(t[1]).variants[v][0])
        if k == "struct":
            st = self.prog.find(t[1])
            body = "{ %s }" % ", ".join("%s: %s" % (js_ident(fn), self.arg(ft, v[fn])) for fn, ft in st.fields)
            # plain objects are what the .d.ts advertises (`St_obj`); borrowing structs need class instances
            return "new %s(%s)" % (t[1], body) if (st.lifetimes or len(st.fields) % 2) else body
        if k == "oref":
            return "null" if v is None else "o[%d]" % v
        if k == "opt":
            return "null" if v is None else self.arg(t[1], v[1])
        if k in ("slice", "oslice"):
            p = t[1] if t[1] != "DiplomatByte" else "u8"
            return "[%s]" % ", ".join(self.prim(p, x) for x in v["items"])
        if k in ("str", "ostr"):
            if t[1] == "u16":
                return "u16s([%s])" % ", ".join(str(x) for x in v["data"])
            if getattr(v["data"], "js16", None):
                return "u16s([%s])" % ", ".join(str(x) for x in v["data"].js16)
            return json.dumps(bytes(v["data"]).decode("utf-8"))
        if k == "strs":
            if t[1] == "u16":
                return "[%s]" % ", ".join("u16s([%s])" % ", ".join(str(x) for x in s_) for s_ in v["strs"])
            return "[%s]" % ", ".join(json.dumps(bytes(s_).decode("utf-8")) for s_ in v["strs"])
        raise Unsupported(t)

    # ------------------------------------------------------------------ printing: JS expression of type string
    def fmt(self, e, t, retv, adopt):
        k = t[0]
        if k == "prim":
            p = t[1]
            if p == "bool":
                return "pbool(%s)" % e
            if p == "f32":
                return "pf32(%s)" % e
            if p == "f64":
                return "pf64(%s)" % e
            if p in INTS and INTS[p][0] <= 16:
                return "hxn(%s, %d, %s)" % (e, INTS[p][0] // 4, "true" if INTS[p][1] else "false")
            return "hx(%s, %d)" % (e, prim_bits(p) // 4)
        if k == "enum":
            return "hx(%s.ffiValue, 8)" % e
        if k == "struct":
            st = self.prog.find(t[1])
            parts = ["\"%s%s:\" + %s" % ("," if i else "", fn, self.fmt("%s.%s" % (e, js_ident(fn)), ft, retv[fn] if retv is not None else None, adopt))
                     for i, (fn, ft) in enumerate(st.fields)]
            return "(\"{\" + " + " + ".join(parts) + " + \"}\")" if parts else "\"{}\""
        if k in ("oref", "obox"):
            optional = t[4] if k == "oref" else t[2]
            if k == "obox" and retv is not None and adopt is not None:
                adopt.append("o[%d] = %s;" % (retv["h"], e))
            if optional:
                return "(%s === null ? \"N\" : \"#\" + %s.vfId())" % (e, e)
            return "(\"#\" + %s.vfId())" % e
        if k == "opt":
            inner = t[1]
            if inner == ("unit",):
                return "(%s ? \"S(())\" : \"N\")" % e
            return "(%s === null ? \"N\" : \"S(\" + %s + \")\")" % (e, self.fmt(e, inner, retv[1] if retv else None, adopt))
        if k in ("slice", "oslice"):
            p = t[1] if t[1] != "DiplomatByte" else "u8"
            return "(\"[\" + Array.from(%s).map(x_ => %s).join(\",\") + \"]\")" % (e, self.fmt("x_", ("prim", p), None, None))
        if k in ("str", "ostr"):
            return ("pstr16(%s)" if t[1] == "u16" else "pstr8(%s)") % e
        if k == "ordering":
            return "hx(%s, 2)" % e
        if k == "unit":
            return "\"()\""
        raise Unsupported(t)

    def step_code(self, st):
        if st["kind"] == "destroy":
            return []
        m, owner, args, n = st["m"], st["owner"], st["args"], st["n"]
        cargs = [self.arg(pt, args[pn]) for pn, pt in m.params if pt[0] != "write"]
        name = js_ident(m.name)
        if m.self_kind:
            if owner.kind == "opaque":
                recv = "o[%d]" % args["self"]
            else:
                recv = self.arg((owner.kind, owner.name), args["self"])
                if owner.kind == "struct" and not recv.startswith("new "):
                    recv = "new %s(%s)" % (owner.name, recv)
            call = "%s.%s(%s)" % (recv, name, ", ".join(cargs))
        else:
            call = "%s.%s(%s)" % (owner.name, name, ", ".join(cargs))
        tag = "RET %s#%d " % (m.abi_name, n)
        has_write = any(pt[0] == "write" for _, pt in m.params)
        adopt = []
        ret, retv = m.ret, st["ret"]
        out = ["{ // %s#%d" % (m.abi_name, n)]
        if ret[0] == "result":
            ok_t, err_t = ret[1], ret[2]
            okv = retv[1] if retv[0] == "ok" else None
            errv = retv[1] if retv[0] == "err" else None
            if has_write:
                ok_fmt = "pstr8(r_)"
            else:
                ok_fmt = self.fmt("r_", ok_t, okv, adopt) if ok_t != ("unit",) else "\"()\""
            adopt_err = []
            err_fmt = self.fmt("c_", err_t, errv, adopt_err) if err_t != ("unit",) else "\"()\""
            out.append("  let r_, c_, threw_ = false;")
            out.append("  try { r_ = %s; } catch (e_) { threw_ = true; c_ = e_ ? e_.cause : undefined; if (!(e_ instanceof Error)) throw e_; if (%s && c_ === undefined) { out(\"%sTHREW \" + String(e_.message).slice(0, 120)); throw e_; } }" % (
                call, "true" if err_t != ("unit",) else "false", tag))
            if err_t == ("unit",):
                # Result<T, ()>: the error arm carries nothing; the binding reports it as null (T present) or as `false` (Result<(), ()>)
                isnull = "r_ === false" if (ok_t == ("unit",) and not has_write) else "r_ === null"
                out.append("  if (threw_ || %s) out(\"%sE(())\"); else { out(\"%sO(\" + %s + \")\"); %s }" % (isnull, tag, tag, ok_fmt, " ".join(adopt)))
            else:
                out.append("  if (threw_) { out(\"%sE(\" + %s + \")\"); %s } else { out(\"%sO(\" + %s + \")\"); %s }" % (tag, err_fmt, " ".join(adopt_err), tag, ok_fmt, " ".join(adopt)))
        else:
            out.append("  const r_ = %s;" % call)
            if has_write:
                if ret == ("unit",):
                    f = "pstr8(r_)"
                elif ret[0] == "opt":
                    f = "(r_ === null ? \"N\" : \"S(\" + pstr8(r_) + \")\")"
                else:
                    raise Unsupported(ret)
            elif ret == ("unit",):
                f = "\"()\""
            else:
                f = self.fmt("r_", ret, retv, adopt)
            out.append("  out(\"%s\" + %s); %s" % (tag, f, " ".join(adopt)))
            if self.rewrap and ret[0] == "oref" and retv is not None:
                src = args["self"] if retv[0] == "self" else args.get(retv[1])
                if src is not None and not ret[2]:
                    out.append("  if (r_ !== null) { o[%d] = r_; for (let i_ = 0; i_ < 2; i_++) { globalThis.gc(); await sleep(); } }" % src)
        out.append("}")
        return out

    def emit(self):
        body = []
        for st in self.s.steps:
            body += self.step_code(st)
        imports = "".join('import { %s } from "./%s.mjs";\n' % (t.name, t.name) for t in self.prog.types())
        src = PRELUDE.replace("@IMPORTS@", imports)
        src += "try {\n" + "".join("  " + l + "\n" for l in body) + "  out(\"END\");\n} catch (e_) { out(\"DRIVER-EXCEPTION \" + String(e_ && e_.stack || e_).split(\"\\n\").slice(0, 4).join(\" | \")); }\n"
        # after the history: drop every handle, let the collector and the finalizers run, report what the allocator still holds
        src += ("o.length = 0;\nfor (let i_ = 0; i_ < 6; i_++) { if (globalThis.gc) globalThis.gc(); await sleep(); }\n"
                "out(\"LIVE \" + wasm.vf_live_blocks() + \" of \" + wasm.vf_total_allocs());\n"
                "for (const u_ of uncaught_.slice(0, 3)) out(\"UNCAUGHT \" + u_);\nout(\"UNCAUGHT-COUNT \" + uncaught_.length);\n")
        return src
