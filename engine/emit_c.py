"""Script -> C11 driver that calls the generated C API exactly as a user would
(documented type names from the generated headers, typed temporaries, no casts on
the API boundary) and prints what it receives in canonical form."""
from spec import INTS, FLOATS, prim_bits

C_PRIM = {"i8": "int8_t", "u8": "uint8_t", "i16": "int16_t", "u16": "uint16_t", "i32": "int32_t", "u32": "uint32_t",
          "i64": "int64_t", "u64": "uint64_t", "isize": "intptr_t", "usize": "size_t", "f32": "float", "f64": "double",
          "bool": "bool", "char": "char32_t", "DiplomatChar": "char32_t", "DiplomatByte": "uint8_t"}
C_NAME = {"i8": "I8", "u8": "U8", "i16": "I16", "u16": "U16", "i32": "I32", "u32": "U32", "i64": "I64", "u64": "U64",
          "isize": "Isize", "usize": "Usize", "f32": "F32", "f64": "F64", "bool": "Bool", "char": "Char",
          "DiplomatChar": "Char", "DiplomatByte": "U8"}

PRELUDE = r'''
#include <stdio.h>
#include <stdlib.h>
#include <string.h>
#include <stdint.h>
#include <stdbool.h>
#include <stddef.h>
#include "diplomat_runtime.h"
@INCLUDES@
extern void* diplomat_alloc(size_t size, size_t align);
static void px(uint64_t v, int digits) { printf("%0*llx", digits, (unsigned long long)v); }
static void p_i8(int8_t v) { px((uint8_t)v, 2); }
static void p_u8(uint8_t v) { px(v, 2); }
static void p_i16(int16_t v) { px((uint16_t)v, 4); }
static void p_u16(uint16_t v) { px(v, 4); }
static void p_i32(int32_t v) { px((uint32_t)v, 8); }
static void p_u32(uint32_t v) { px(v, 8); }
static void p_i64(int64_t v) { px((uint64_t)v, 16); }
static void p_u64(uint64_t v) { px(v, 16); }
static void p_isize(intptr_t v) { px((uint64_t)v, 16); }
static void p_usize(size_t v) { px((uint64_t)v, 16); }
static void p_f32(float v) { uint32_t b; memcpy(&b, &v, 4); px(b, 8); }
static void p_f64(double v) { uint64_t b; memcpy(&b, &v, 8); px(b, 16); }
static void p_bool(bool v) { unsigned char b; memcpy(&b, &v, 1); if (b > 1) printf("BADBOOL(%02x)", b); else printf("%d", b); }
static void p_char(char32_t v) { px((uint32_t)v, 8); }
static float f32b(uint32_t b) { float f; memcpy(&f, &b, 4); return f; }
static double f64b(uint64_t b) { double f; memcpy(&f, &b, 8); return f; }
static void p_bytes(const char* d, size_t n) { printf("\""); for (size_t i = 0; i < n; i++) printf("%02x", (unsigned char)d[i]); printf("\""); }
static void p_u16s(const char16_t* d, size_t n) { printf("["); for (size_t i = 0; i < n; i++) { if (i) printf(","); px(d[i], 4); } printf("]"); }
/* raw flag byte of a result/option: must be exactly 0 or 1 */
static int flag(const void* p) { unsigned char b; memcpy(&b, p, 1); if (b > 1) { printf("BADFLAG(%02x)", b); } return b == 1; }
'''


def c_prim_lit(p, bits):
    if p in ("f32",):
        return "f32b(0x%08xu)" % (bits & 0xFFFFFFFF)
    if p in ("f64",):
        return "f64b(UINT64_C(0x%016x))" % (bits & 0xFFFFFFFFFFFFFFFF)
    if p == "bool":
        return "true" if bits else "false"
    w = prim_bits(p)
    return "(%s)UINT64_C(0x%x)" % (C_PRIM[p], bits & ((1 << w) - 1))


class CEmitter:
    def __init__(self, script, lang="c"):
        self.s = script
        self.prog = script.prog
        self.lang = lang
        self.decls = []        # file-scope declarations (callbacks, arrays)
        self.tmp = 0

    def fresh(self, base="t"):
        self.tmp += 1
        return "%s%d" % (base, self.tmp)

    # ---- C types
    def c_ty(self, t, m=None, pname=None):
        k = t[0]
        if k == "prim":
            return C_PRIM[t[1]]
        if k in ("enum", "struct"):
            return t[1]
        if k == "oref":
            return ("%s*" if t[2] else "const %s*") % t[1]
        if k == "obox":
            return "%s*" % t[1]
        if k == "opt":
            i = t[1]
            if i[0] == "prim":
                return "Option" + C_NAME[i[1]]
            if i[0] in ("enum", "struct"):
                return i[1] + "_option"
            if i[0] == "slice":
                return "Option%sView%s" % (C_NAME[i[1]], "Mut" if i[2] else "")
            if i[0] == "oslice":
                return "Option%sViewMut" % C_NAME[i[1]]
            if i[0] in ("str", "ostr"):
                return "OptionString16View" if i[1] == "u16" else "OptionStringView"
            if i[0] == "strs":
                return "OptionStrings16View" if i[1] == "u16" else "OptionStringsView"
        if k == "slice":
            return "Diplomat%sView%s" % (C_NAME[t[1]], "Mut" if t[2] else "")
        if k == "oslice":
            return "Diplomat%sViewMut" % C_NAME[t[1]]
        if k in ("str", "ostr"):
            return "DiplomatString16View" if t[1] == "u16" else "DiplomatStringView"
        if k == "strs":
            return "DiplomatStrings16View" if t[1] == "u16" else "DiplomatStringsView"
        if k == "cb":
            return "DiplomatCallback_%s_%s" % (m.abi_name, pname)
        if k == "tr":
            return "DiplomatTraitStruct_" + t[1]
        if k == "write":
            return "DiplomatWrite*"
        if k == "ordering":
            return "int8_t"
        if k == "unit":
            return "void"
        raise ValueError(t)

    def ret_cty(self, m):
        t = m.ret
        if t[0] == "result":
            return m.abi_name + "_result"
        if t[0] == "opt":
            return m.abi_name + "_result"
        return self.c_ty(t)

    # ---- argument construction: returns C expression; may append statements to `pre`
    def arg(self, t, v, pre, post, m=None, pname=None):
        k = t[0]
        if k == "prim":
            return c_prim_lit(t[1], v)
        if k == "enum":
            en = self.prog.find(t[1])
            return "%s_%s" % (t[1], en.variants[v][0])
        if k == "struct":
            s = self.prog.find(t[1])
            return "(%s){ %s }" % (t[1], ", ".join(".%s = %s" % (fn, self.arg(ft, v[fn], pre, post)) for fn, ft in s.fields))
        if k == "oref":
            return "NULL" if v is None else "o%d" % v
        if k == "opt":
            cty = self.c_ty(t)
            if v is None:
                return "(%s){ .is_ok = false }" % cty
            return "(%s){ .ok = %s, .is_ok = true }" % (cty, self.arg(t[1], v[1], pre, post))
        if k == "slice":
            cty = self.c_ty(t)
            ety = C_PRIM[t[1]]
            items = v["items"]
            if not items:
                if v["null"]:
                    return "(%s){ .data = NULL, .len = 0 }" % cty
                a = self.fresh("arr")
                pre.append("%s %s[1] = { %s };" % (ety, a, c_prim_lit(t[1] if t[1] != "DiplomatByte" else "u8", 0)))
                return "(%s){ .data = %s, .len = 0 }" % (cty, a)
            a = self.fresh("arr")
            # exact-size heap copy: an out-of-bounds access by the callee is a heap overflow for ASan/valgrind
            pre.append("%s* %s = malloc(%d * sizeof(%s));" % (ety, a, len(items), ety))
            for i, x in enumerate(items):
                pre.append("%s[%d] = %s;" % (a, i, c_prim_lit(t[1] if t[1] != "DiplomatByte" else "u8", x)))
            if t[2]:
                post.append(("mutslice", a, len(items), t, pname))
            post.append(("free", a))
            return "(%s){ .data = %s, .len = %d }" % (cty, a, len(items))
        if k == "oslice":
            cty = self.c_ty(t)
            ety = C_PRIM[t[1]]
            items = v["items"]
            if not items:
                return "(%s){ .data = NULL, .len = 0 }" % cty
            a = self.fresh("own")
            pre.append("%s* %s = diplomat_alloc(%d * sizeof(%s), _Alignof(%s));" % (ety, a, len(items), ety, ety))
            for i, x in enumerate(items):
                pre.append("%s[%d] = %s;" % (a, i, c_prim_lit(t[1], x)))
            return "(%s){ .data = %s, .len = %d }" % (cty, a, len(items))
        if k in ("str", "ostr"):
            cty = self.c_ty(t)
            data = v["data"]
            ety = "char16_t" if t[1] == "u16" else "char"
            if not data:
                if v["null"] or k == "ostr":
                    return "(%s){ .data = NULL, .len = 0 }" % cty
                a = self.fresh("arr")
                pre.append("%s %s[1] = { 0 };" % (ety, a))
                return "(%s){ .data = %s, .len = 0 }" % (cty, a)
            a = self.fresh("str")
            if k == "ostr":
                pre.append("%s* %s = diplomat_alloc(%d * sizeof(%s), _Alignof(%s));" % (ety, a, len(data), ety, ety))
            else:
                pre.append("%s* %s = malloc(%d * sizeof(%s));" % (ety, a, len(data), ety))
                post.append(("free", a))
            for i, x in enumerate(data):
                pre.append("%s[%d] = (%s)0x%x;" % (a, i, ety, x))
            return "(%s){ .data = %s, .len = %d }" % (cty, a, len(data))
        if k == "strs":
            cty = self.c_ty(t)
            strs = v["strs"]
            inner = "DiplomatString16View" if t[1] == "u16" else "DiplomatStringView"
            ety = "char16_t" if t[1] == "u16" else "char"
            if not strs:
                if v["null"]:
                    return "(%s){ .data = NULL, .len = 0 }" % cty
                a = self.fresh("arr")
                pre.append("%s %s[1] = { { NULL, 0 } };" % (inner, a))
                return "(%s){ .data = %s, .len = 0 }" % (cty, a)
            a = self.fresh("strs")
            pre.append("%s* %s = malloc(%d * sizeof(%s));" % (inner, a, len(strs), inner))
            post.append(("free", a))
            for i, sdata in enumerate(strs):
                if not sdata:
                    pre.append("%s[%d] = (%s){ .data = NULL, .len = 0 };" % (a, i, inner))
                    continue
                b = self.fresh("str")
                pre.append("%s* %s = malloc(%d * sizeof(%s));" % (ety, b, len(sdata), ety))
                post.append(("free", b))
                for j, x in enumerate(sdata):
                    pre.append("%s[%d] = (%s)0x%x;" % (b, j, ety, x))
                pre.append("%s[%d] = (%s){ .data = %s, .len = %d };" % (a, i, inner, b, len(sdata)))
            return "(%s){ .data = %s, .len = %d }" % (cty, a, len(strs))
        if k == "cb":
            return self.callback(t, v, pre, post, m, pname)
        if k == "tr":
            return self.trait_object(t, v, pre, post)
        if k == "write":
            w = self.fresh("w")
            if v["mode"] == "buffer":
                pre.append("DiplomatWrite* %s = diplomat_buffer_write_create(%d);" % (w, v["cap"]))
                post.append(("write_buffer", w))
                return w
            pre.append("char* %s_buf = malloc(%d); memset(%s_buf, 0x7e, %d);" % (w, v["size"], w, v["size"]))
            pre.append("DiplomatWrite %s_w = diplomat_simple_write(%s_buf, %d);" % (w, w, v["size"]))
            post.append(("write_fixed", w, v["size"]))
            return "&%s_w" % w
        raise ValueError(t)

    def callback(self, t, v, pre, post, m, pname):
        n = v["cb"]
        cty = self.c_ty(t, m, pname)
        ret_c = "void" if t[2] == ("unit",) else self.c_ty(t[2])
        params = ["const void* data"] + ["%s a%d" % (self.c_ty(a), i) for i, a in enumerate(t[1])]
        body = []
        # a stateless callback is a legitimate foreign callback: `data` may be NULL (or a zero handle) and the destructor must still run
        if v.get("null_data"):
            self.decls.append("static int cb_cnt_%d = 0;" % n)
            body.append("if (data != NULL) { printf(\"CB %d got a data pointer it never passed\\n\"); abort(); } int j = cb_cnt_%d++;" % (n, n))
        else:
            body.append("int* cnt = (int*)data; int j = (*cnt)++;")
        body.append("printf(\"CB %d#%%d\", j);" % n)
        for i, a in enumerate(t[1]):
            body.append("printf(\" \");")
            body += self.print_stmts("a%d" % i, a)
        body.append("printf(\"\\n\");")
        for i, a in enumerate(t[1]):
            if a[0] == "obox":
                body.append("%s_destroy(a%d);" % (a[1], i))          # given for good: the callback is the owner now
        if t[2] != ("unit",):
            body.append("switch (j) {")
            for j, (_, cret) in enumerate(v["inv"]):
                dummy_pre, dummy_post = [], []
                body.append("  case %d: return %s;" % (j, self.arg(t[2], cret, dummy_pre, dummy_post)))
            body.append("  default: break; }")
            body.append("printf(\"CB %d called too often\\n\"); abort();" % n)
        self.decls.append("static %s cb_run_%d(%s) {\n  %s\n}" % (ret_c, n, ", ".join(params), "\n  ".join(body)))
        self.decls.append("static void cb_drop_%d(const void* data) { printf(\"CBDROP %d\\n\"); free((void*)data); }" % (n, n))
        if v.get("null_data"):
            return "(%s){ .data = NULL, .run_callback = cb_run_%d, .destructor = %s }" % (cty, n, ("cb_drop_%d" % n) if v["destructor"] else "NULL")
        d = self.fresh("cbd")
        pre.append("int* %s = calloc(1, sizeof(int));" % d)
        if v["destructor"]:
            return "(%s){ .data = %s, .run_callback = cb_run_%d, .destructor = cb_drop_%d }" % (cty, d, n, n)
        assert not v.get("held")
        post.append(("free", d))
        return "(%s){ .data = %s, .run_callback = cb_run_%d, .destructor = NULL }" % (cty, d, n)

    def trait_object(self, t, v, pre, post):
        """A foreign implementation of the trait: one vtable function per method, all sharing the call counter behind `data`."""
        n = v["cb"]
        null_data = bool(v.get("null_data"))
        if null_data:
            self.decls.append("static int tr_cnt_%d = 0;" % n)
        fns = []
        for mi, (mname, mm, margs, mret) in enumerate(t[2]):
            ret_c = "void" if mret == ("unit",) else self.c_ty(mret)
            params = ["void* data"] + ["%s a%d" % (self.c_ty(a), i) for i, a in enumerate(margs)]
            body = []
            if null_data:
                body.append("if (data != NULL) { printf(\"CB %d got a data pointer it never passed\\n\"); abort(); } int j = tr_cnt_%d++;" % (n, n))
            else:
                body.append("int* cnt = (int*)data; int j = (*cnt)++;")
            body.append("printf(\"CB %d#%%d %s\", j);" % (n, mname))
            for i, a in enumerate(margs):
                body.append("printf(\" \");")
                body += self.print_stmts("a%d" % i, a)
            body.append("printf(\"\\n\");")
            for i, a in enumerate(margs):
                if a[0] == "obox":
                    body.append("%s_destroy(a%d);" % (a[1], i))
            if mret != ("unit",):
                body.append("switch (j) {")
                for j, (imi, _, cret) in enumerate(v["inv"]):
                    if imi == mi:
                        body.append("  case %d: return %s;" % (j, self.arg(mret, cret, [], [])))
                body.append("  default: break; }")
                body.append("printf(\"CB %d %s called out of script\\n\"); abort();" % (n, mname))
            fn = "tr_%d_%s" % (n, mname)
            self.decls.append("static %s %s(%s) {\n  %s\n}" % (ret_c, fn, ", ".join(params), "\n  ".join(body)))
            fns.append(".run_%s_callback = %s" % (mname, fn))
        self.decls.append("static void tr_drop_%d(const void* data) { printf(\"CBDROP %d\\n\"); free((void*)data); }" % (n, n))
        cty = "DiplomatTraitStruct_" + t[1]
        if null_data:
            d = "NULL"
        else:
            d = self.fresh("trd")
            pre.append("int* %s = calloc(1, sizeof(int));" % d)
            if not v["destructor"]:
                post.append(("free", d))
        # the header names the first member (Rust's `data: *const c_void`) `destructor` and types it as a function pointer
        return "(%s){ .destructor = (void (*)(const void*))%s, .vtable = { .destructor = %s, .SIZE = sizeof(int), .ALIGNMENT = _Alignof(int), %s } }" % (
            cty, d, ("tr_drop_%d" % n) if v["destructor"] else "NULL", ", ".join(fns))

    # ---- printing
    def print_stmts(self, e, t, adopt=None, retv=None):
        """C statements printing expression e of type t in canonical form."""
        k = t[0]
        if k == "prim":
            fn = {"DiplomatChar": "char", "DiplomatByte": "u8"}.get(t[1], t[1])
            return ["p_%s(%s);" % (fn, e)]
        if k == "enum":
            return ["p_i32((int32_t)%s);" % e]
        if k == "struct":
            s = self.prog.find(t[1])
            out = ["printf(\"{\");"]
            for i, (fn, ft) in enumerate(s.fields):
                out.append("printf(\"%s%s:\");" % ("," if i else "", fn))
                out += self.print_stmts("%s.%s" % (e, fn), ft, adopt, retv[fn] if retv is not None else None)
            out.append("printf(\"}\");")
            return out
        if k in ("oref", "obox"):
            out = ["if (%s == NULL) printf(\"N\"); else { printf(\"#\"); printf(\"%%u\", (unsigned)%s_vf_id(%s)); }" % (e, t[1], e)]
            if k == "obox" and adopt is not None and retv is not None:
                out.append("o%d = %s;" % (retv["h"], e))
            return out
        if k == "opt":
            inner = t[1]
            if inner == ("unit",):
                return ["if (flag(&%s.is_ok)) printf(\"S(())\"); else printf(\"N\");" % e]
            return (["if (flag(&%s.is_ok)) { printf(\"S(\");" % e] + self.print_stmts(e + ".ok", inner, adopt, retv[1] if retv else None)
                    + ["printf(\")\"); } else printf(\"N\");"])
        if k == "result":
            out = ["if (flag(&%s.is_ok)) { printf(\"O(\");" % e]
            okv = retv[1] if (retv and retv[0] == "ok") else None
            errv = retv[1] if (retv and retv[0] == "err") else None
            out += self.print_stmts(e + ".ok", t[1], adopt, okv) if t[1] != ("unit",) else ["printf(\"()\");"]
            out.append("printf(\")\"); } else { printf(\"E(\");")
            out += self.print_stmts(e + ".err", t[2], adopt, errv) if t[2] != ("unit",) else ["printf(\"()\");"]
            out.append("printf(\")\"); }")
            return out
        if k in ("slice", "oslice"):
            p = t[1]
            fn = {"DiplomatChar": "char", "DiplomatByte": "u8"}.get(p, p)
            return ["printf(\"[\"); for (size_t i_ = 0; i_ < %s.len; i_++) { if (i_) printf(\",\"); p_%s(%s.data[i_]); } printf(\"]\");" % (e, fn, e)]
        if k in ("str", "ostr"):
            if t[1] == "u16":
                return ["p_u16s(%s.data, %s.len);" % (e, e)]
            return ["p_bytes(%s.data, %s.len);" % (e, e)]
        if k == "ordering":
            return ["p_i8(%s);" % e]
        raise ValueError(t)

    # ---- steps
    def step_code(self, st):
        if st["kind"] == "destroy":
            o = st["obj"]
            return ["%s_destroy(o%d); o%d = NULL;" % (o.ty, o.h, o.h)]
        m, owner, args, n = st["m"], st["owner"], st["args"], st["n"]
        pre, post = [], []
        cargs = []
        if m.self_kind:
            if owner.kind == "opaque":
                cargs.append("o%d" % args["self"])
            else:
                cargs.append(self.arg((owner.kind, owner.name), args["self"], pre, post))
        for pn, pt in m.params:
            cargs.append(self.arg(pt, args[pn], pre, post, m, pn))
        call = "%s(%s)" % (m.abi_name, ", ".join(cargs))
        out = ["{ /* %s#%d */" % (m.abi_name, n)] + ["  " + p for p in pre]
        if m.ret == ("unit",):
            out.append("  %s;" % call)
            out.append("  printf(\"RET %s#%d ()\\n\");" % (m.abi_name, n))
        else:
            out.append("  %s r_ = %s;" % (self.ret_cty(m), call))
            out.append("  printf(\"RET %s#%d \");" % (m.abi_name, n))
            out += ["  " + s for s in self.print_stmts("r_", m.ret, adopt=True, retv=st["ret"])]
            out.append("  printf(\"\\n\");")
        muts = {p[4]: p for p in post if p[0] == "mutslice"}
        for pn, pt in m.params:
            if pt[0] == "slice" and pt[2]:
                if pn in muts:
                    _, a, ln, t, pname = muts[pn]
                    fn = {"DiplomatChar": "char", "DiplomatByte": "u8"}.get(t[1], t[1])
                    out.append("  printf(\"MUT %s [\"); for (size_t i_ = 0; i_ < %d; i_++) { if (i_) printf(\",\"); p_%s(%s[i_]); } printf(\"]\\n\");" % (pname, ln, fn, a))
                else:
                    out.append("  printf(\"MUT %s []\\n\");" % pn)
        for p in post:
            if p[0] == "write_buffer":
                w = p[1]
                out.append("  { char* b_ = diplomat_buffer_write_get_bytes(%s); size_t l_ = diplomat_buffer_write_len(%s); printf(\"WR \"); "
                           "if (b_ == NULL) printf(\"NULL failed=1\"); else { p_bytes(b_, l_); printf(\" failed=0\"); } printf(\"\\n\"); diplomat_buffer_write_destroy(%s); }" % (w, w, w))
            elif p[0] == "write_fixed":
                w, size = p[1], p[2]
                out.append("  { printf(\"WR \"); p_bytes(%s_buf, %s_w.len); printf(\" failed=%%d nul=%%d\\n\", (int)%s_w.grow_failed, %s_w.len < %d && %s_buf[%s_w.len] == 0 ? 1 : 0); free(%s_buf); }" % (
                    w, w, w, w, size, w, w, w))
        for p in post:
            if p[0] == "free":
                out.append("  free(%s);" % p[1])
        out.append("}")
        return out

    def emit(self, prologue=""):
        body = []
        for st in self.s.steps:
            body += self.step_code(st)
        objs = "".join("  %s* o%d = NULL; (void)o%d;\n" % (o.ty, o.h, o.h) for o in self.s.objs)
        includes = "".join('#include "%s.h"\n' % t.name for t in self.prog.types())
        src = PRELUDE.replace("@INCLUDES@", includes)
        src += "\n".join(self.decls) + "\n"
        src += "int main(void) {\n  setvbuf(stdout, NULL, _IONBF, 0);\n" + prologue + objs
        src += "".join("  " + l + "\n" for l in body)
        src += "  printf(\"END\\n\");\n  return 0;\n}\n"
        return src
