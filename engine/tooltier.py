"""Shared helpers for the tool-only checks (C05, C09, C13, C14, C15, C17): per-backend
program generation, standard config files, output directory snapshots."""
import hashlib
import os
import random
import re

import api
import emit_rust
import profiles
import spec
import toolrun

STD_CONFIG = {
    "c": "",
    "cpp": "",
    "js": "",
    "dart": "",
    "kotlin": 'lib_name = "vflib"\n[kotlin]\ndomain = "dev.vf"\n',
    "nanobind": 'lib_name = "vflib"\n',
    "demo_gen": "",
}

# productions that crash a backend today (known findings F2, F4, F5, F6, F8); checks other than C15
# keep them out of that backend's workload so that one known crash does not cost them their coverage
AVOID = {
    "cpp": dict(cb_opt=False, cb_slices=False),      # F39 (directed probe in C09)
    "dart": dict(result_prim_err=True, opt_slices=False, byte_slices=False),
    "kotlin": dict(opt_slices=False, cb_strs=False),      # string arguments of callbacks: diagnosed as unsupported by the Kotlin backend
}


def backend_program(backend, seed, idx, avoid_known=True, size="small", extra_profile=None, salt=""):
    prof = dict(profiles.gen_profile(backend))
    if backend == "demo_gen":
        prof["write_prob"] = 0.6          # demo_gen renders only methods that write to a DiplomatWrite: give it something to render
    if avoid_known:
        prof.update(AVOID.get(backend, {}))
    if extra_profile:
        prof.update(extra_profile)
    kw = dict(n_opaques=(1, 2), n_structs=(0, 2), n_enums=(0, 1), n_methods=(1, 4)) if size == "small" else \
        dict(n_opaques=(2, 4), n_structs=(3, 6), n_enums=(2, 4), n_methods=(3, 7))
    rng = random.Random("tool/%s/%s/%s/%s" % (backend if size == "small" else "any", seed, idx, salt))
    g = spec.Gen(rng, profile=prof, name="p%d" % idx, **kw)
    prog = g.program()
    for t in prog.types():
        if t.kind == "opaque" and rng.random() < 0.3:
            t.decl = "enum"          # #[diplomat::opaque] enum: same FFI surface as an opaque struct
    if avoid_known:
        friendly_attrs(prog)
    emit_rust.assign_abi_names(prog)
    return prog


def friendly_attrs(prog):
    """Attributes a careful user adds so that backends with extra requirements accept the module:
    error types are marked (Kotlin insists), every opaque names its default constructor (demo_gen insists)."""
    err_types = set()
    for t, m in prog.methods():
        if m.ret[0] == "result" and m.ret[2][0] in ("enum", "struct", "obox", "oref"):
            err_types.add(m.ret[2][1])
    for t in prog.types():
        if t.name in err_types and "#[diplomat::attr(auto, error)]" not in t.attrs:
            t.attrs.append("#[diplomat::attr(auto, error)]")
        if t.kind == "opaque":
            for m in t.methods:
                if m.name == "make" and not m.attrs:
                    m.attrs.append("#[diplomat::demo(default_constructor)]")


def prog_productions(prog):
    import collections
    out = collections.Counter()
    for t, m in prog.methods():
        out["self:%s:%s" % (t.kind, m.self_kind[0] if m.self_kind else "static")] += 1
        for pn, pt in m.params:
            api.ty_productions(prog, pt, "param", out)
        api.ty_productions(prog, m.ret, "ret", out)
    for t in prog.types():
        if t.kind in ("struct", "outstruct"):
            for fn, ft in t.fields:
                api.ty_productions(prog, ft, "field", out)
    # how an optional borrowed parameter's lifetime is used by the rest of the signature (known finding F2 is about one of these only)
    for t, m in prog.methods():
        for pn, pt in m.params:
            if pt[0] != "opt" or pt[1][0] not in ("slice", "str", "struct"):
                continue
            lts = type_lifetimes(prog, pt[1])
            if not lts:
                continue
            rl = type_lifetimes(prog, m.ret)
            others = set()
            for qn, qt in m.params:
                if qn != pn:
                    others |= type_lifetimes(prog, qt)
            kind = {"slice": "slice", "str": "str", "struct": "struct"}[pt[1][0]]
            if lts & rl:
                out["optlt:borrowed by the return:Option<%s>" % kind] += 1
            elif lts & others:
                out["optlt:shared with another parameter:Option<%s>" % kind] += 1
            else:
                out["optlt:alone:Option<%s>" % kind] += 1
    return out


def type_lifetimes(prog, t):
    """named lifetimes mentioned by a type tuple"""
    k = t[0]
    if k == "slice":
        return {t[3]} - {None, "static"}
    if k == "str":
        return {t[2]} - {None, "static"}
    if k == "oref":
        return {t[3]} - {None, "static"}
    if k == "opt":
        return type_lifetimes(prog, t[1])
    if k == "result":
        return type_lifetimes(prog, t[1]) | type_lifetimes(prog, t[2])
    if k == "struct":
        try:
            return {"a"} if prog.find(t[1]).lifetimes else set()
        except KeyError:
            return set()
    if k == "obox":
        try:
            return {"a"} if prog.find(t[1]).lifetimes else set()
        except KeyError:
            return set()
    return set()


def write_program(prog, d, config_text=None, bodies=False):
    src = os.path.join(d, "lib.rs")
    with open(src, "w") as f:
        f.write(emit_rust.emit_program(prog, bodies=bodies))
    for t in prog.types():
        for a in t.attrs:
            m = re.search(r'custom_func = "([^"]+)"', a)
            if m:
                fp = os.path.join(d, m.group(1))
                os.makedirs(os.path.dirname(fp), exist_ok=True)
                with open(fp, "w") as f:
                    f.write("export default {\n  \"%s.custom\": { func: () => \"custom\", funcName: \"%s.custom\", parameters: [] }\n};\n" % (t.name, t.name))
    cfg = os.path.join(d, "config.toml")
    if config_text is not None:
        with open(cfg, "w") as f:
            f.write(config_text)
    return src, cfg


def snapshot(outdir):
    """{relative path: sha1} of every file under outdir."""
    snap = {}
    for root, _, files in os.walk(outdir):
        for fn in files:
            p = os.path.join(root, fn)
            snap[os.path.relpath(p, outdir)] = hashlib.sha1(open(p, "rb").read()).hexdigest()
    return snap


def norm_panic(msg):
    m = re.sub(r"\b(Op|St|En|Out)\d+\b", "T", msg)
    m = re.sub(r"(File map already contains )\S*/", r"\1", m)          # the directory part depends on the configuration (Kotlin package path)
    m = re.sub(r"(File map already contains )\w+(\.\S+)", r"\1T\2", m)     # whatever the type is called
    m = re.sub(r"\d+", "N", m)
    return m[:110]


CONDS = ["*", "c", "cpp", "js", "dart", "kotlin", "nanobind", "demo_gen", "not(c)", "not(js)", "any(cpp, js)", "any(dart, kotlin, nanobind)",
         "all(not(c), not(cpp))", "supports = option", "not(supports = callbacks)", "supports = namespacing", "any(supports = memory_sharing, dart)",
         "not(any(js, demo_gen))", "all(*, not(kotlin))"]


def decorate(prog, rng, p_item=0.35):
    """Sprinkle backend-conditional rename/disable attributes and abi_rename patterns over module, type, impl and
    method positions. Types are never disabled (other items may refer to them); methods and impls may be."""
    n = 0
    for mod in prog.modules:
        if rng.random() < p_item:
            mod.attrs.append('#[diplomat::abi_rename = "%s"]' % rng.choice(["vf_{0}", "{0}_v2", "lib{0}"]))
            n += 1
        if rng.random() < p_item / 2:
            mod.attrs.append('#[diplomat::attr(%s, rename = "%s")]' % (rng.choice(CONDS), rng.choice(["Zz{0}", "{0}Mod"])))
            n += 1
        for t in mod.items:
            if rng.random() < p_item:
                t.attrs.append('#[diplomat::attr(%s, rename = "Ren%s")]' % (rng.choice(CONDS), t.name))
                n += 1
            if rng.random() < p_item / 2:
                t.attrs.append('#[diplomat::abi_rename = "%s"]' % rng.choice(["ty_{0}", "{0}_t"]))
                n += 1
            if t.methods and rng.random() < p_item:
                t.impl_attrs = getattr(t, "impl_attrs", []) + [rng.choice([
                    '#[diplomat::attr(%s, disable)]' % rng.choice(CONDS),
                    '#[diplomat::attr(%s, rename = "im_{0}")]' % rng.choice(CONDS),
                    '#[diplomat::abi_rename = "impl_{0}"]'])]
                n += 1
            impl_disabled = any("disable" in a for a in getattr(t, "impl_attrs", []))
            for m in t.methods:
                if m.name in ("make",):
                    continue
                r = rng.random()
                if r < 0.12 and impl_disabled:
                    continue
                if r < 0.12:
                    m.attrs.append('#[diplomat::attr(%s, disable)]' % rng.choice(CONDS))
                    n += 1
                elif r < 0.24:
                    m.attrs.append('#[diplomat::attr(%s, rename = "renamed_%s")]' % (rng.choice(CONDS), m.name))
                    n += 1
                elif r < 0.30:
                    m.attrs.append('#[diplomat::abi_rename = "abi_%s_%s"]' % (t.name, m.name))
                    n += 1
    return n


KEYWORD_FIELDS = ["class", "new", "default", "template", "namespace", "delete", "operator", "register", "int", "auto", "union", "typename",
                  "private", "friend", "export", "this"] + [k for k in spec.C_FAMILY_KEYWORDS if not k.startswith("_")]
NAMESPACES = ["ns", "outer::inner", "a::b::c", "other", "outer::sibling", "outer"]


def reference_graph_features(prog, rng, keyword_fields=True, namespaces=True, renames=True, this_param=False):
    """What C09 quantifies over: cyclic type references, (nested) namespaces, renames, keyword-named parameters and fields."""
    opaques = [t for t in prog.types() if t.kind == "opaque"]
    structs = [t for t in prog.types() if t.kind == "struct" and not t.lifetimes]
    # cycles through opaque methods: A::to_b(&B) -> Option<&B>, B::to_a(&A)
    for i, a in enumerate(opaques):
        b = opaques[(i + 1) % len(opaques)]
        m = spec.Method("cyc%d" % i, ("ref", "a"), [("other", ("oref", b.name, False, "a", False))], ("oref", b.name, False, "a", True), lifetimes=["a"])
        m.owner = a
        a.methods.append(m)
        m2 = spec.Method("mk_other%d" % i, ("ref", None), [], ("obox", b.name, False))
        m2.owner = a
        a.methods.append(m2)
    # cycles through struct <-> opaque: struct method taking an opaque whose method takes the struct
    for i, s in enumerate(structs[:2]):
        if opaques:
            o = opaques[i % len(opaques)]
            m = spec.Method("use_op%d" % i, ("val",), [("o", ("oref", o.name, False, None, False))], ("struct", s.name))
            m.owner = s
            s.methods.append(m)
            m2 = spec.Method("use_st%d" % i, ("ref", None), [("s", ("struct", s.name))], ("opt", ("struct", s.name), "std"))
            m2.owner = o
            o.methods.append(m2)
    if keyword_fields:
        for s in prog.types():
            if s.kind in ("struct", "outstruct") and rng.random() < 0.5:
                used = {fn for fn, _ in s.fields}
                for j, (fn, ft) in enumerate(list(s.fields)):
                    if rng.random() < 0.4:
                        kw = rng.choice(KEYWORD_FIELDS)
                        if kw not in used and kw != "this":
                            s.fields[j] = (kw, ft)
                            used.add(kw)
    if this_param:
        for t, m in prog.methods():
            if m.self_kind and m.name.startswith("m") and rng.random() < 0.15 and not any(pn == "this" for pn, _ in m.params):
                m.params.insert(0, ("this", ("prim", "u8")))
    if namespaces:
        for mod in prog.modules:
            if rng.random() < 0.7:
                mod.attrs.append('#[diplomat::attr(auto, namespace = "%s")]' % rng.choice(NAMESPACES))
            for t in mod.items:
                if rng.random() < 0.35:
                    t.attrs.append('#[diplomat::attr(auto, namespace = "%s")]' % rng.choice(NAMESPACES))
    if renames:
        for t in prog.types():
            r = rng.random()
            if r < 0.2:
                t.attrs.append('#[diplomat::attr(*, rename = "Rn%s")]' % t.name)
            elif r < 0.3:
                t.attrs.append('#[diplomat::attr(cpp, rename = "Cpp%s")]' % t.name)
            elif r < 0.4:
                t.attrs.append('#[diplomat::attr(js, rename = "Js%s")]' % t.name)
            # (never the name of one of the type's own fields, nor a name another method of the type was already renamed to: those are the
            # user's own clashes, C++ and JS have one member namespace per type)
            taken = {fn for fn, _ in getattr(t, "fields", [])} | {m_.name for m_ in t.methods}
            for m in t.methods:
                if m.name != "make" and rng.random() < 0.15:
                    nm = rng.choice([n_ for n_ in ["renamed_" + m.name, "new", "delete", "class", "default"] if n_ not in taken])
                    taken.add(nm)
                    m.attrs.append('#[diplomat::attr(%s, rename = "%s")]' % (rng.choice(["*", "cpp", "js"]), nm))


TRAIT_PRIMS = ["i32", "u8", "u64", "f64", "bool", "i16", "usize"]


def add_traits(prog, rng, backend, n=(1, 2)):
    """For backends whose attr_support() declares `traits` (C and Kotlin today): 1-2 traits with 1-3 methods over primitives /
    enums / lifetime-free structs, and opaque methods that consume `impl Trait` (alone or next to other parameters).
    Returns the number of traits added."""
    sup = profiles.support(backend)
    if not sup.get("traits"):
        return 0
    opaques = [t for t in prog.types() if t.kind == "opaque" and not t.lifetimes]
    if not opaques:
        return 0
    enums = [t for t in prog.types() if t.kind == "enum"]
    count = rng.randint(*n)
    for k in range(count):
        host = rng.choice(opaques)
        mod = [m for m in prog.modules if host in m.items][0]
        local = lambda t: t in mod.items or ("crate::%s::%s" % ([m.name for m in prog.modules if t in m.items][0], t.name)) in getattr(mod, "uses", [])
        lines = []
        for j in range(rng.randint(1, 3)):
            args = []
            for a in range(rng.randint(0, 3)):
                c = rng.random()
                if c < 0.55:
                    args.append("a%d: %s" % (a, rng.choice(TRAIT_PRIMS)))
                elif c < 0.65 and sup.get("option"):
                    args.append("a%d: Option<%s>" % (a, rng.choice(TRAIT_PRIMS)))
                elif c < 0.72:
                    args.append("a%d: &[%s]" % (a, rng.choice(TRAIT_PRIMS)))
                elif c < 0.8 and backend != "kotlin":      # Kotlin diagnoses string arguments of callbacks as unsupported
                    args.append("a%d: %s" % (a, rng.choice(["&str", "&DiplomatStr", "&DiplomatStr16"])))
                elif [e for e in enums if local(e)]:
                    args.append("a%d: %s" % (a, rng.choice([e for e in enums if local(e)]).name))
                else:
                    args.append("a%d: %s" % (a, rng.choice(TRAIT_PRIMS)))
            rc = rng.random()
            if rc < 0.3:
                ret = ""
            elif rc < 0.45 and sup.get("option"):
                ret = " -> Option<%s>" % rng.choice(TRAIT_PRIMS)
            elif rc < 0.55 and [e for e in enums if local(e)]:
                ret = " -> " + rng.choice([e for e in enums if local(e)]).name
            else:
                ret = " -> " + rng.choice(TRAIT_PRIMS)
            if rng.random() < 0.25:
                # attributes the tool reads on trait methods; the macro must not leave them for rustc
                lines.append("        " + rng.choice(['#[diplomat::attr(js, rename = "tmjs%d")]' % j, "/// Documented trait method.", '#[diplomat::rust_link(foo::Bar::baz, FnInTrait)]']))
            lines.append("        fn tm%d(&%sself%s)%s;" % (j, "mut " if rng.random() < 0.2 else "", "".join(", " + a for a in args), ret))
        name = "VfTr%d%s" % (k, host.name)
        # supertraits the backend declares it can honour, in every spelling that names std's marker traits
        sups = []
        if sup.get("traits_are_send") and rng.random() < 0.5:
            sups.append(rng.choice(["Send", "std::marker::Send", "core::marker::Send"]))
        if sup.get("traits_are_sync") and rng.random() < 0.4:
            sups.append(rng.choice(["Sync", "std::marker::Sync", "core::marker::Sync"]))
        tattr = ""
        if rng.random() < 0.4:
            tattr = "    %s\n" % rng.choice(["#[diplomat::attr(dart, disable)]", "#[diplomat::attr(not(supports = traits), disable)]", "/// A documented trait.",
                                            "#[diplomat::rust_link(foo::Bar, Trait)]", '#[diplomat::attr(js, rename = "JsTrait%d")]' % k])
        mod.extra_src += "%s    pub trait %s%s {\n%s\n    }\n" % (tattr, name, (": " + " + ".join(sups)) if sups else "", "\n".join(lines))
        params = [("t", ("raw", "impl " + name))]
        if rng.random() < 0.5:
            params.insert(rng.randrange(2), ("n", ("prim", rng.choice(TRAIT_PRIMS))))
        m = spec.Method("use_tr%d" % k, rng.choice([("ref", None), None]), params, rng.choice([("prim", "i32"), ("unit",)]))
        m.owner = host
        host.methods.append(m)
    return count


def add_zst_error(prog, rng, prim_errors=True):
    """A field-less struct (`pub struct VfZst;`), legal only as a Result/Option payload (feature_tests has `MyZst`), used as the Err
    (and sometimes the Ok) type of methods on an existing opaque. Tool-level checks only: the runtime legs have no model for it."""
    opaques = [t for t in prog.types() if t.kind == "opaque" and not t.lifetimes]
    if not opaques:
        return False
    host = rng.choice(opaques)
    mod = [m for m in prog.modules if host in m.items][0]
    mod.extra_src += "    #[diplomat::attr(auto, error)]\n    pub struct VfZst;\n    pub struct VfDone;\n"
    rets = [("raw", "Result<(), VfZst>"), ("raw", "Result<%s, VfZst>" % rng.choice(["u8", "f64", "bool", "i32"])),
            ("raw", "Result<VfDone, VfZst>"), ("raw", "Option<VfDone>")]
    if prim_errors:
        rets += [("raw", "Result<VfDone, %s>" % rng.choice(["u8", "u32", "i64"]))]
    rng.shuffle(rets)
    for k, ret in enumerate(rets[:rng.randint(1, 3)]):
        m = spec.Method("zst%d" % k, rng.choice([("ref", None), None]), [("n", ("prim", "u8"))] if rng.random() < 0.5 else [], ret)
        m.owner = host
        host.methods.append(m)
    return True


SPECIAL_NAMES = ["cmp", "compare_to", "ordering", "plus", "add", "combine", "minus", "times", "over", "at", "get", "lookup", "items", "iter", "digits",
                 "walk", "next", "advance", "text", "to_string", "describe", "build", "create", "of", "from_parts", "size", "count", "set_size", "put_count"]


def add_special_methods(prog, rng, backend):
    """Methods carrying the special-method attributes a backend declares support for (comparison, arithmetic and *_assign, indexer, iterable +
    iterator, stringifier, constructor / named constructor, getter / setter), under varying *names*, on existing lifetime-free opaques and on a
    fresh iterator type. Tool-level checks only. Returns the number of methods added."""
    sup = profiles.support(backend)
    hosts = [t for t in prog.types() if t.kind == "opaque" and not t.lifetimes]
    if not hosts:
        return 0
    used = lambda t: {m.name for m in t.methods}
    n = 0

    def add(host, attr, name, self_kind, params, ret, lifetimes=None):
        nonlocal n
        nm = name
        while nm in used(host):
            nm += "_x"
        m = spec.Method(nm, self_kind, params, ret, lifetimes=lifetimes)
        m.attrs.append("#[diplomat::attr(auto, %s)]" % attr)
        m.owner = host
        host.methods.append(m)
        n += 1
    host = rng.choice(hosts)
    me = ("oref", host.name, False, None, False)
    pick = lambda: rng.choice(SPECIAL_NAMES)
    if sup["comparators"] and rng.random() < 0.7:
        add(host, "comparison", pick(), ("ref", None), [("other", me)], ("ordering",))
    if sup["arithmetic"]:
        for op in rng.sample(["add", "sub", "mul", "div"], rng.randint(0, 3)):
            add(host, op, pick(), ("ref", None), [("o", me)], ("obox", host.name, False))
        for op in rng.sample(["add_assign", "sub_assign", "mul_assign", "div_assign"], rng.randint(0, 2)):
            add(host, op, pick(), ("mut", None), [("o", me)], ("unit",))
    if sup["arithmetic"] and rng.random() < 0.4:
        # arithmetic on value types too (enums and structs take the operands by value); the *_assign forms are for opaques only
        vts = [t for t in prog.types() if t.kind in ("enum", "struct") and not t.lifetimes]
        if vts:
            vt = rng.choice(vts)
            for op in rng.sample(["add", "sub", "mul", "div"], rng.randint(1, 2)):
                add(vt, op, pick(), ("val",), [("o", (vt.kind, vt.name))], (vt.kind, vt.name))
    if sup["indexing"] and rng.random() < 0.6:
        add(host, "indexer", pick(), ("ref", None), [("i", ("prim", "usize"))], ("opt", ("prim", rng.choice(["u8", "f64", "i32"])), "std") if sup["option"] else ("prim", "u8"))
    if sup["iterators"] and sup["iterables"] and sup["option"] and rng.random() < 0.7:
        it = spec.Opaque("VfIter%s" % host.name)
        mod = [m for m in prog.modules if host in m.items][0]
        mod.items.append(it)
        add(it, "iterator", pick(), ("mut", None), [], ("opt", ("prim", rng.choice(["u8", "u32", "i16"])), "std"))
        add(host, "iterable", pick(), ("ref", None), [], ("obox", it.name, False))
    if sup["stringifiers"] and rng.random() < 0.6:
        add(host, "stringifier", pick(), ("ref", None), [("w", ("write",))], ("unit",))
    if sup["named_constructors"] and rng.random() < 0.5:
        add(host, "named_constructor", pick(), None, [("v", ("prim", "u32"))], ("obox", host.name, False))
    # constructors of value types: a struct, and an out-struct (ids of the two kinds are counted separately inside the tool)
    for vt in [t for t in prog.types() if t.kind in ("struct", "outstruct") and not t.lifetimes]:
        if sup["constructors"] and rng.random() < 0.35:
            add(vt, "constructor", pick(), None, [("v", ("prim", "u8"))], ("struct", vt.name))
        elif sup["named_constructors"] and rng.random() < 0.25:
            add(vt, "named_constructor", pick(), None, [("v", ("prim", "u8"))], ("struct", vt.name))
    if sup["accessors"] and rng.random() < 0.6:
        g = "prop_" + pick()          # never the name of a sibling method: that collision is probed separately (C15 F33)
        enums = [t for t in prog.types() if t.kind == "enum"]
        vty = rng.choice([("prim", "u32"), ("prim", "u32"), ("prim", "bool"), ("prim", "f64"), ("prim", "i16")] + ([("enum", rng.choice(enums).name)] if enums else []))
        # getters may be nullable / fallible, setters may report success ("does not forbid fallible setters"): the success flag is still
        # part of the function's C ABI (seed C07-g: Dart declared such setters as returning void)
        gret = rng.choice([vty, vty, ("opt", vty, "std") if sup["option"] else vty, ("result", vty, ("unit",), "std")])
        add(host, "getter = \"%s\"" % g, "fetch_" + g, ("ref", None), [], gret)
        if rng.random() < 0.6:
            sret = rng.choice([("unit",), ("unit",), ("result", ("unit",), ("unit",), "std"), ("opt", ("unit",), "std")])
            add(host, "setter = \"%s\"" % g, "store_" + g, rng.choice([("mut", None), ("ref", None)]), [("v", vty)], sret)
            if rng.random() < 0.4:
                host.methods[-1], host.methods[-2] = host.methods[-2], host.methods[-1]
        if sup.get("static_accessors") and rng.random() < 0.4:
            g2 = "sprop_" + pick()
            add(host, "getter = \"%s\"" % g2, "sfetch_" + g2, None, [], vty)
            if rng.random() < 0.5:
                add(host, "setter = \"%s\"" % g2, "sstore_" + g2, None, [("v", vty)], rng.choice([("unit",), ("result", ("unit",), ("unit",), "std")]))
                if rng.random() < 0.5:
                    # the setter declared before its getter (backends that merge the two into one property meet them in either order)
                    host.methods[-1], host.methods[-2] = host.methods[-2], host.methods[-1]
    if sup.get("constructors") and rng.random() < 0.4:
        # a constructor on the opaque itself, fallible where the backend can express that
        cret = ("obox", host.name, False)
        if sup.get("fallible_constructors") and rng.random() < 0.5:
            cret = ("result", cret, ("unit",), "std")
        add(host, "constructor", pick(), None, [("v", ("prim", "i32"))], cret)
    return n


def add_static_opaque_refs(prog, rng):
    """`&'static Opaque` in return position and as a field of an out-struct / struct (legal Rust, accepted by the gate): known finding F6 shapes."""
    hosts = [t for t in prog.types() if t.kind == "opaque" and not t.lifetimes]
    if not hosts:
        return 0
    host = rng.choice(hosts)
    mod = [m for m in prog.modules if host in m.items][0]
    n = 0
    kinds = rng.sample(["ret", "outfield", "field"], rng.randint(1, 2))
    if "ret" in kinds:
        m = spec.Method("vf_static_ref", rng.choice([("ref", None), None]), [], ("raw", "&'static %s" % host.name))
        m.owner = host
        host.methods.append(m)
        n += 1
    if "outfield" in kinds:
        mod.extra_src += "    #[diplomat::out]\n    pub struct VfStaticOut { pub a: &'static %s, pub n: u8 }\n" % host.name
        m = spec.Method("vf_static_out", ("ref", None), [], ("raw", "VfStaticOut"))
        m.owner = host
        host.methods.append(m)
        n += 1
    if "field" in kinds:
        mod.extra_src += "    pub struct VfStaticSt { pub a: &'static %s, pub n: u8 }\n" % host.name
        m = spec.Method("vf_static_in", ("ref", None), [("s", ("raw", "VfStaticSt"))], ("prim", "u8"))
        m.owner = host
        host.methods.append(m)
        n += 1
    return n


DOC_TYPES = {"Struct": 1, "Enum": 1, "Trait": 1, "Fn": 1, "Macro": 1, "Constant": 1, "Typedef": 1, "Mod": 0,
             "FnInStruct": 2, "FnInTypedef": 2, "FnInEnum": 2, "FnInTrait": 2, "DefaultFnInTrait": 2, "EnumVariant": 2, "StructField": 2,
             "AssociatedTypeInEnum": 2, "AssociatedTypeInStruct": 2, "AssociatedTypeInTrait": 2, "AssociatedConstantInEnum": 2,
             "AssociatedConstantInStruct": 2, "AssociatedConstantInTrait": 2, "EnumVariantField": 3}
DOC_LINES = ["Does the thing.", "See `other_thing` for details; returns <nothing> & more.", "Quotes: \"double\" and 'single', backslash \\ too.",
             "Unicode: \u00e9\u20ac\U0001f600 and a tab\there.", "", "# Heading", "A list:", " - item one", " - item two with `code`",
             "```", "let x = a < b && c > d;", "```", "@param looks like a tag, {@link foo} too", "100% sure; $dollar #hash"]


def add_docs(prog, rng, p_item=0.5):
    """doc comments (markdown, quotes, angle brackets, non-ASCII) and #[diplomat::rust_link(path, DocType[, compact|hidden])] on types and methods,
    over every DocType with a path long enough for it. Returns the number of decorated items."""
    n = 0

    def decorate(attrs):
        nonlocal n
        n += 1
        for _ in range(rng.randint(0, 4)):
            attrs.append("/// " + rng.choice(DOC_LINES))
        for _ in range(rng.randint(0, 3)):
            ty = rng.choice(list(DOC_TYPES))
            path = ["some_crate"] + ["m%d" % k for k in range(rng.randint(0, 2))] + ["Item", "part", "sub"][:DOC_TYPES[ty]]
            disp = rng.choice(["", "", ", compact", ", hidden"])
            attrs.append("#[diplomat::rust_link(%s, %s%s)]" % ("::".join(path), ty, disp))
    for t in prog.types():
        if rng.random() < p_item:
            decorate(t.attrs)
        for m in t.methods:
            if rng.random() < p_item:
                decorate(m.attrs)
    return n


CFGS = ['#[cfg(feature = "vfx")]', '#[cfg(not(feature = "vfx"))]', '#[cfg(any())]', '#[cfg(all())]', '#[cfg(any(feature = "vfx", feature = "vfy"))]']


def add_cfgs(prog, rng, p_item=0.3):
    """Plain `#[cfg(..)]` on methods and impl blocks (the book's ICU4X-style optional features): the macro copies them onto the extern
    functions it generates, so the expansion must type-check whichever way each condition evaluates (seed C09-g: one of the two wrapper
    templates forgot them). Methods writing to a DiplomatWrite get them as often as the others. Returns the number of attributes."""
    n = 0
    for t in prog.types():
        if t.methods and rng.random() < p_item / 3:
            t.impl_attrs = getattr(t, "impl_attrs", []) + [rng.choice(CFGS)]
            n += 1
        for m in t.methods:
            if rng.random() < (0.6 if any(pt[0] == "write" for _, pt in m.params) else p_item):
                m.attrs.append(rng.choice(CFGS))
                n += 1
    return n


def same_name_namespaced(prog, rng):
    """A second bridge module under a namespace that declares a type with the *identifier* of a global type of the same kind, and a method
    of the global one that mentions it (seed C09-h: per-header bookkeeping keyed by the unqualified name). Needs a namespace-free program
    and a backend with namespaces. Returns the number of pairs added."""
    cands = [t for t in prog.types() if t.kind in ("opaque", "struct", "enum") and not t.lifetimes and not any("namespace" in a for a in t.attrs)]
    if not cands or any("namespace" in a for m in prog.modules for a in m.attrs):
        return 0
    orig = rng.choice(cands)
    mod = spec.Module("zz_samename")
    mod.attrs = ['#[diplomat::attr(auto, namespace = "vfsame")]', '#[diplomat::abi_rename = "vfsame_{0}"]']
    if orig.kind == "opaque":
        twin = spec.Opaque(orig.name)
        mk = spec.Method("make", None, [("seed", ("prim", "u32"))], ("obox", orig.name, False))
        mk.owner = twin
        twin.methods.append(mk)
        ref_ty = ("raw", "&crate::zz_samename::%s" % orig.name)
    elif orig.kind == "struct":
        twin = spec.Struct(orig.name, [("q", ("prim", "i16")), ("r", ("prim", "u64"))])
        ref_ty = ("raw", "crate::zz_samename::%s" % orig.name)
    else:
        twin = spec.Enum(orig.name, [("Left", None), ("Right", None)])
        ref_ty = ("raw", "crate::zz_samename::%s" % orig.name)
    mod.items = [twin]
    prog.modules.append(mod)
    hosts = [orig] if orig.kind != "enum" or True else []
    m = spec.Method("meet_twin", ("ref", None) if orig.kind == "opaque" else ("val",), [("other", ref_ty)], ("prim", "u8"))
    m.owner = orig
    orig.methods.append(m)
    # a by-value holder of the global type, so that its header needs the global type's complete definition
    return 1


def underscore_fields(prog, rng, p_field=0.3):
    """Struct fields whose Rust name starts with an underscore (`_reserved`, `_pad`: legal, and part of the repr(C) layout like any other
    field). Signature-only workloads. Returns the number of fields renamed."""
    n = 0
    for t in prog.types():
        if t.kind not in ("struct", "outstruct"):
            continue
        new_fields = []
        for fn, ft in t.fields:
            if rng.random() < p_field and not fn.startswith("_"):
                nn = rng.choice(["_%s", "_reserved_%s", "_pad_%s", "__%s"]) % fn
                if fn in t.field_attrs:
                    t.field_attrs[nn] = t.field_attrs.pop(fn)
                new_fields.append((nn, ft))
                n += 1
            else:
                new_fields.append((fn, ft))
        t.fields = new_fields
    return n


VARIANT_NAMES = ["None", "Default", "New", "Null", "True", "False", "Class", "Delete", "Int", "Double", "Void", "Static", "Namespace", "Template", "Typename",
                 "Auto", "Register", "Signed", "Unsigned", "Short", "Long", "Char", "Float", "Union", "Volatile", "Inline", "Restrict", "Sizeof", "Goto", "Operator",
                 "This", "Friend", "Virtual", "Export", "Import", "Typeof", "Var", "Let", "Function", "Yield", "Await", "Async", "With", "In", "Of", "Instanceof",
                 "Arguments", "Eval", "Undefined", "NaN", "Infinity", "MultiWordName", "Abc123", "X", "HTTPServer", "Values", "Name", "Index", "ToString", "HashCode"]


def rename_variants(prog, rng, p_enum=0.6):
    """Enum variants named like keywords / builtins of the target languages once re-cased (None, Default, New, Class, NaN ..), multi-word and
    digit-bearing names: signature-only workloads (nothing else refers to a variant by name). Returns the number of enums touched."""
    n = 0
    for t in prog.types():
        if t.kind == "enum" and rng.random() < p_enum:
            names = rng.sample(VARIANT_NAMES, len(t.variants))
            ren = {old: new for (old, _), new in zip(t.variants, names)}
            t.variants = [(ren[vn], e) for vn, e in t.variants]
            t.lit_styles = {ren[vn]: st for vn, st in getattr(t, "lit_styles", {}).items()}
            if getattr(t, "variant_attrs", None):
                t.variant_attrs = {ren[vn]: a for vn, a in t.variant_attrs.items()}
            n += 1
    return n


def add_demo_attrs(prog, rng, generate=True):
    """#[diplomat::demo(...)] attributes (only demo_gen reads them): generate on methods, input(label / default_value) on struct fields,
    custom_func on types, default_constructor on opaque constructors."""
    n = 0
    for t in prog.types():
        if rng.random() < 0.3:
            t.attrs.append('#[diplomat::demo(custom_func = "custom/%s.mjs")]' % t.name.lower())
            n += 1
        if t.kind in ("struct",):
            for fn, ft in t.fields:
                if rng.random() < 0.4:
                    dv = rng.choice(['"7"', "1000", "2.5", '"true"', '"text with \\"quotes\\""'])      # string, integer and float literals are what the attribute parser accepts
                    t.field_attrs.setdefault(fn, []).append('#[diplomat::demo(input(label = "Field %s (%%)", default_value = %s))]' % (fn, dv))
                    n += 1
                elif rng.random() < 0.15:
                    t.field_attrs.setdefault(fn, []).append("#[diplomat::demo(external)]")
                    n += 1
        for m in t.methods:
            if m.name == "make" and not any("default_constructor" in a for a in m.attrs) and rng.random() < 0.7:
                m.attrs.append("#[diplomat::demo(default_constructor)]")
                n += 1
            elif generate and rng.random() < 0.3:
                m.attrs.append("#[diplomat::demo(generate)]")
                n += 1
            for pn, pt in m.params:
                if pt[0] in ("prim", "enum", "str", "slice", "struct", "opt", "oref", "strs", "oslice", "ostr") and rng.random() < 0.3:
                    if not hasattr(m, "param_attrs"):
                        m.param_attrs = {}
                    what = rng.choice(['input(label = "Param %s")' % pn, 'input(label = "P %s", default_value = "3")' % pn, "external", 'input(default_value = "0")'])
                    m.param_attrs.setdefault(pn, []).append("#[diplomat::demo(%s)]" % what)
                    n += 1
    return n
