"""Shared plumbing for every check: paths, subprocess helpers, build layer,
evidence writer, known-findings handling, violation reporting.

Python stdlib only.
"""
import hashlib
import json
import os
import random
import shutil
import subprocess
import sys
import time
from concurrent.futures import ThreadPoolExecutor

VERIF = os.path.dirname(os.path.dirname(os.path.abspath(__file__)))
REPO = os.path.abspath(os.environ.get("VERIF_REPO", "/repo"))
CACHE = os.environ.get("VERIF_CACHE", os.path.join(VERIF, ".cache"))
# runs against another tree (VERIF_REPO: seeded defects, pre-fix worktrees) keep their evidence and replays out of the committed ones
_ALT = None if REPO == "/repo" else os.path.join(CACHE, "alt-" + hashlib.sha1(REPO.encode()).hexdigest()[:8])
EVIDENCE_DIR = os.environ.get("VERIF_EVIDENCE") or (os.path.join(_ALT, "evidence") if _ALT else os.path.join(VERIF, "evidence"))
REPLAYS = os.environ.get("VERIF_REPLAYS") or (os.path.join(_ALT, "replays") if _ALT else os.path.join(VERIF, "replays"))
NCPU = min(16, os.cpu_count() or 4)
NIGHTLY = "nightly"

BASE_ENV = dict(os.environ)
BASE_ENV.update({
    "CARGO_NET_OFFLINE": "true",
    "CARGO_TERM_COLOR": "never",
    "NO_COLOR": "1",
    "RUST_BACKTRACE": "0",
})
# conda noise on stderr in this image comes from the login shell, not from us.


def repo_key():
    return hashlib.sha1(REPO.encode()).hexdigest()[:8]


def cache_dir(*parts):
    p = os.path.join(CACHE, *parts)
    os.makedirs(p, exist_ok=True)
    return p


class Inconclusive(Exception):
    """The whole run cannot decide (repo does not build, toolchain error)."""


def run(cmd, cwd=None, env=None, timeout=600, input=None):
    """Run a command, never raising on non-zero. Returns (rc, stdout, stderr).
    rc == -999 means the watchdog fired (inconclusive, never a violation)."""
    e = dict(BASE_ENV)
    if env:
        e.update(env)
    try:
        p = subprocess.run(cmd, cwd=cwd, env=e, timeout=timeout, input=input,
                           stdout=subprocess.PIPE, stderr=subprocess.PIPE)
        return p.returncode, p.stdout.decode("utf-8", "replace"), p.stderr.decode("utf-8", "replace")
    except subprocess.TimeoutExpired as ex:
        out = (ex.stdout or b"").decode("utf-8", "replace")
        err = (ex.stderr or b"").decode("utf-8", "replace")
        return -999, out, err + "\n[watchdog timeout after %ss]" % timeout


def pmap(fn, items, workers=None):
    items = list(items)
    if not items:
        return []
    with ThreadPoolExecutor(max_workers=workers or NCPU) as ex:
        return list(ex.map(fn, items))


def log(*a):
    print(*a, file=sys.stderr, flush=True)


# --------------------------------------------------------------------------
# build layer: everything is rebuilt from REPO's working tree on every check
# --------------------------------------------------------------------------

def repo_target(kind="stable"):
    return cache_dir("target-%s-%s" % (kind, repo_key()))


_tool_path = None
import threading
_build_lock = threading.Lock()


def build_tool():
    """cargo build diplomat-tool from the working tree. Returns binary path."""
    global _tool_path
    if _tool_path:
        return _tool_path
    with _build_lock:
        return _build_tool_locked()


def _build_tool_locked():
    global _tool_path
    if _tool_path:
        return _tool_path
    tgt = repo_target("stable")
    t0 = time.time()
    rc, out, err = run(["cargo", "build", "--offline", "-p", "diplomat-tool",
                        "--manifest-path", os.path.join(REPO, "Cargo.toml"),
                        "--target-dir", tgt], timeout=1800)
    if rc != 0:
        raise Inconclusive("diplomat-tool does not build from %s:\n%s" % (REPO, err[-3000:]))
    log("[build] diplomat-tool ok (%.1fs)" % (time.time() - t0))
    _tool_path = os.path.join(tgt, "debug", "diplomat-tool")
    return _tool_path


def instantiate_crate(name, extra_subst=None):
    """Copy /verif/rs/<name> into the cache with @REPO@ substituted in Cargo.toml
    and /repo's Cargo.lock next to it. Returns crate dir."""
    src = os.path.join(VERIF, "rs", name)
    dst = cache_dir("crates", "%s-%s" % (name, repo_key()))
    for root, dirs, files in os.walk(src):
        rel = os.path.relpath(root, src)
        if rel.startswith("target"):
            continue
        os.makedirs(os.path.join(dst, rel), exist_ok=True)
        for f in files:
            sp = os.path.join(root, f)
            dp = os.path.join(dst, rel, f)
            data = open(sp, "rb").read()
            if f.endswith(".toml.in"):
                dp = dp[:-3]
                txt = data.decode().replace("@REPO@", REPO)
                for k, v in (extra_subst or {}).items():
                    txt = txt.replace(k, v)
                data = txt.encode()
            if not os.path.exists(dp) or open(dp, "rb").read() != data:
                with open(dp, "wb") as fh:
                    fh.write(data)
    lock_src = os.path.join(REPO, "Cargo.lock")
    lock_dst = os.path.join(dst, "Cargo.lock")
    if not os.path.exists(lock_dst):
        shutil.copy(lock_src, lock_dst)
    return dst


def cargo_build_crate(crate_dir, kind, toolchain=None, rustflags=None, release=False,
                      extra=None, target=None, bin_name=None, timeout=1800):
    """Build a harness crate into a per-kind target dir. Returns binary path."""
    tgt = repo_target(kind)
    cmd = ["cargo"]
    if toolchain:
        cmd.append("+" + toolchain)
    cmd += ["build", "--offline", "--manifest-path", os.path.join(crate_dir, "Cargo.toml"),
            "--target-dir", tgt]
    if release:
        cmd.append("--release")
    if target:
        cmd += ["--target", target]
    if extra:
        cmd += extra
    env = {}
    if rustflags:
        env["RUSTFLAGS"] = rustflags
    t0 = time.time()
    rc, out, err = run(cmd, env=env, timeout=timeout)
    if rc != 0:
        raise Inconclusive("build of %s (%s) failed:\n%s" % (crate_dir, kind, err[-3000:]))
    log("[build] %s/%s ok (%.1fs)" % (os.path.basename(crate_dir), kind, time.time() - t0))
    parts = [tgt]
    if target:
        parts.append(target)
    parts.append("release" if release else "debug")
    parts.append(bin_name or os.path.basename(crate_dir).split("-")[0])
    return os.path.join(*parts)


# --------------------------------------------------------------------------
# known findings
# --------------------------------------------------------------------------

class KnownFindings:
    """/verif/known_findings.txt: `finding: property=<id> key=<json> what=<text>` lines
    suppress exactly the violations whose key matches; `fixed:` lines suppress nothing."""

    def __init__(self, prop):
        self.prop = prop
        self.entries = []
        p = os.path.join(VERIF, "known_findings.txt")
        if os.path.exists(p):
            for line in open(p):
                line = line.strip()
                if not line.startswith("finding:"):
                    continue
                body = line[len("finding:"):].strip()
                if not body.startswith("property=%s " % prop):
                    continue
                try:
                    kpos = body.index("key=") + 4
                    wpos = body.index(" what=")
                    key = json.loads(body[kpos:wpos])
                    what = body[wpos + 6:]
                except Exception:
                    continue
                self.entries.append({"key": key, "what": what, "seen": 0})

    def match(self, key):
        """key: dict. An entry matches when every field of the entry's key equals the
        observed key's field (entry list-valued fields: observed value must be a member)."""
        for e in self.entries:
            ok = True
            for k, v in e["key"].items():
                ov = key.get(k)
                if isinstance(v, list):
                    if ov not in v:
                        ok = False
                        break
                elif ov != v:
                    ok = False
                    break
            if ok:
                e["seen"] += 1
                return e
        return None

    def report(self):
        out = []
        for e in self.entries:
            if e["seen"]:
                print("KNOWN-FINDING: property=%s %s (observed %d times)" % (self.prop, e["what"], e["seen"]), flush=True)
                out.append({"what": e["what"], "key": e["key"], "observed": e["seen"]})
        return out


# --------------------------------------------------------------------------
# result of a check
# --------------------------------------------------------------------------

class Check:
    def __init__(self, prop, tier, seed, level):
        self.prop = prop
        self.tier = tier
        self.seed = seed
        self.level = level
        self.t0 = time.time()
        self.violations = []       # list of (replay path, summary)
        self.inconclusive = []     # list of reasons
        self.evaluations = 0
        self.distinct = set()
        self.samples = []
        self.rule = ""
        self.extra = {}
        self.assumptions = []
        self.known = KnownFindings(prop)
        self.exhaustive = None
        os.makedirs(os.path.join(REPLAYS, prop), exist_ok=True)
        import glob
        for old in glob.glob(os.path.join(REPLAYS, prop, "%s-seed%s-*.json" % (tier, seed))):
            os.remove(old)

    def rng(self, salt=""):
        return random.Random("%s/%s/%s" % (self.prop, self.seed, salt))

    def sample(self, s, limit=4):
        if len(self.samples) < limit:
            self.samples.append(s)

    def violation(self, name, summary, payload, key=None):
        """Record a violation unless `key` matches a listed known finding."""
        if key is not None:
            e = self.known.match(key)
            if e is not None:
                return False
        safe = "".join(c if c.isalnum() or c in "-_." else "_" for c in name)[:80]
        path = os.path.join(REPLAYS, self.prop, "%s-seed%s-%s.json" % (self.tier, self.seed, safe))
        body = {"property": self.prop, "tier": self.tier, "seed": self.seed,
                "summary": summary, "key": key, "payload": payload}
        with open(path, "w") as f:
            json.dump(body, f, indent=1, default=str)
        self.violations.append((path, summary))
        if len(self.violations) <= 20:
            print("VIOLATION property=%s replay=%s" % (self.prop, path), flush=True)
            log("  -> " + summary[:600])
        return True

    def inconc(self, reason):
        self.inconclusive.append(reason)
        if len(self.inconclusive) <= 10:
            print("INCONCLUSIVE property=%s reason=%s" % (self.prop, reason[:300]), flush=True)

    def finish(self, whole_run_inconclusive=None):
        known = self.known.report()
        cov = {
            "evaluations": int(self.evaluations),
            "distinct_nontrivial": len(self.distinct) if isinstance(self.distinct, set) else int(self.distinct),
            "rule": self.rule,
            "samples": self.samples or ["(no sample recorded)"],
            "inconclusive_cases": len(self.inconclusive),
            "inconclusive_reasons": self.inconclusive[:10],
            "known_findings_observed": known,
        }
        if self.exhaustive is not None:
            cov["exhaustive"] = bool(self.exhaustive)
        cov.update(self.extra)
        if self.level == "translation_validation":
            cov.setdefault("programs", cov.get("programs", 0))
            cov.setdefault("disagreements_checked", len(self.violations))
        ev = {
            "property_id": self.prop,
            "tier": self.tier,
            "seed": int(self.seed),
            "level": self.level,
            "coverage": cov,
            "assumptions": self.assumptions,
            "wall_s": round(time.time() - self.t0, 2),
            "violations": len(self.violations),
            "repo": REPO,
        }
        os.makedirs(EVIDENCE_DIR, exist_ok=True)
        with open(os.path.join(EVIDENCE_DIR, self.prop + ".json"), "w") as f:
            json.dump(ev, f, indent=1, default=str)
        log("[%s] %s tier=%s seed=%s evaluations=%d distinct=%d violations=%d inconclusive=%d wall=%.1fs" % (
            self.prop, "VIOLATED" if self.violations else "held", self.tier, self.seed,
            cov["evaluations"], cov["distinct_nontrivial"], len(self.violations),
            len(self.inconclusive), ev["wall_s"]))
        if self.violations:
            return 1
        if whole_run_inconclusive:
            print("INCONCLUSIVE property=%s reason=%s" % (self.prop, whole_run_inconclusive), flush=True)
            return 2
        if cov["evaluations"] < 1 or cov["distinct_nontrivial"] < 2:
            print("INCONCLUSIVE property=%s reason=nothing observed" % self.prop, flush=True)
            return 2
        if not self.inconclusive and not os.environ.get("VF_KEEP_WORK") and os.environ.get("VF_RUN"):
            # a run that held needs no witnesses: give the scratch space back (several GB per check otherwise)
            shutil.rmtree(os.path.join(CACHE, "work", repo_key(), os.environ["VF_RUN"]), ignore_errors=True)
        return 0
