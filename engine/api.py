"""End-to-end legs over generated APIs: generate a bridge, build it with the real proc
macro, generate bindings with the real tool, compile a driver against them, run it under
sanitizers and compare the merged event log (Rust bodies + driver) with the script."""
import os
import random
import re

import calls
import emit_c
import emit_rust
import spec
import toolrun
from common import NCPU, log, pmap, run

ASAN_ENV = {"ASAN_OPTIONS": "detect_leaks=1:halt_on_error=1:abort_on_error=0:allocator_may_return_null=1",
            "UBSAN_OPTIONS": "halt_on_error=1:print_stacktrace=0"}
LINK_LIBS = ["-lpthread", "-ldl", "-lm", "-lgcc_s", "-lutil", "-lrt"]
CFLAGS = ["-std=c11", "-g", "-O0", "-fsanitize=address,undefined", "-fno-sanitize-recover=all", "-fno-omit-frame-pointer",
          "-Werror=incompatible-pointer-types", "-Werror=int-conversion", "-Werror=implicit-function-declaration",
          "-Werror=discarded-qualifiers"]


C_PROFILE = dict(opt_owned=True)


def make_program(seed, idx, profile=None, ncalls=40, lang="c", prog_fix=None, **genkw):
    profile = dict(C_PROFILE, **(profile or {}))
    rng = random.Random("prog/%s/%s" % (seed, idx))
    g = spec.Gen(rng, profile=profile, name="p%d" % idx, **genkw)
    prog = g.program()
    if prog_fix:
        prog_fix(prog)
    return finish_program(prog, seed, idx, ncalls, lang)


def finish_program(prog, seed, idx, ncalls=40, lang="c"):
    """adds the id accessor to every opaque, assigns ABI names and builds the call script"""
    for t in prog.types():
        if t.kind == "opaque":
            m = spec.Method("vf_id", ("ref", None), [], ("prim", "u32"))
            m.owner = t
            m.raw_body = "self.id"
            t.methods.append(m)
    emit_rust.assign_abi_names(prog)
    sc = calls.Script(prog, random.Random("script/%s/%s" % (seed, idx)), lang=lang)
    sc.build(ncalls)
    return prog, sc


def sanitizer_blocks(err):
    reps = []
    for pat in [r"ERROR: AddressSanitizer: ([^\n]*)", r"ERROR: LeakSanitizer: ([^\n]*)", r"runtime error: ([^\n]*)",
                r"(free\(\): [^\n]*|double free or corruption[^\n]*)", r"(panicked at [^\n]*\n[^\n]*)"]:
        for m in re.finditer(pat, err):
            reps.append(m.group(1)[:300])
    return reps


def first_diff(expected, got):
    for i, (a, b) in enumerate(zip(expected, got)):
        if a != b:
            return i, a, b
    if len(expected) != len(got):
        i = min(len(expected), len(got))
        return i, expected[i] if i < len(expected) else "<end of expected log>", got[i] if i < len(got) else "<end of observed log>"
    return None


def run_c_program(seed, idx, tag, profile=None, ncalls=40, valgrind=False, keep=False):
    """Returns dict(status=ok|violation|skip|inconclusive, ...)."""
    prog, sc = make_program(seed, idx, profile, ncalls)
    d = toolrun.fresh_dir(toolrun.workdir(tag, "p%d" % idx))
    return build_and_run_c(prog, sc, d, idx, valgrind=valgrind, keep=keep)


def build_and_run_c(prog, sc, d, idx, valgrind=False, keep=False, c_prologue="", expected_extra=None):
    src = os.path.join(d, "lib.rs")
    open(src, "w").write(emit_rust.emit_program(prog, bodies=True))
    res = {"idx": idx, "dir": d, "prog": prog, "script": sc, "calls": sum(1 for s in sc.steps if s["kind"] == "call"),
           "events": len(sc.expected), "sigs": [spec.method_sig(t, m) for t, m in prog.methods() if m.name not in ("make", "vf_id")]}
    rc, o, e = toolrun.rustc_lib(src, os.path.join(d, "libvfprog.a"))
    if rc != 0:
        res.update(status="skip", stage="rustc", detail=e[-2000:])
        return res
    rc, o, e = toolrun.run_tool("c", src, os.path.join(d, "c"), configs=["unsafe_references_in_callbacks=true"])
    kind, det = toolrun.classify_tool(rc, e)
    if kind != "ok":
        res.update(status="skip", stage="tool:" + kind, detail=str(det)[:2000])
        return res
    drv = os.path.join(d, "driver.c")
    open(drv, "w").write(emit_c.CEmitter(sc).emit(prologue=c_prologue))
    exe = os.path.join(d, "driver")
    rc, o, e = run(["gcc"] + CFLAGS + ["-I", os.path.join(d, "c"), drv, os.path.join(d, "libvfprog.a")] + LINK_LIBS + ["-o", exe], timeout=300)
    if rc != 0:
        # a user-style driver that does not compile against the generated header: the header disagrees with the
        # documented C API for this bridge (wrong type, arity, name)
        res.update(status="violation", stage="gcc", detail=e[-3000:])
        return res
    rc, out, err = run([exe], env=ASAN_ENV, timeout=120, cwd=d)
    got = out.splitlines()
    res["observed_events"] = len(got)
    res["observed_lines"] = got
    reps = sanitizer_blocks(err)
    diff = first_diff((expected_extra or []) + sc.expected + ["END"], got)
    if rc == -999:
        res.update(status="inconclusive", stage="run", detail="watchdog")
    elif diff or reps or rc != 0:
        res.update(status="violation", stage="run", rc=rc, diff=diff, reports=reps, stderr=err[-3000:],
                   context=got[max(0, (diff[0] if diff else len(got)) - 6):(diff[0] if diff else len(got)) + 3])
    else:
        res.update(status="ok")
        if valgrind:
            exe2 = os.path.join(d, "driver_plain")
            rc, o, e = run(["gcc", "-std=c11", "-g", "-O0", "-I", os.path.join(d, "c"), drv, os.path.join(d, "libvfprog.a")] + LINK_LIBS + ["-o", exe2], timeout=300)
            if rc == 0:
                rc, out2, err2 = run(["valgrind", "-q", "--error-exitcode=97", "--leak-check=full", "--errors-for-leak-kinds=definite",
                                      exe2], timeout=600, cwd=d)
                if rc == 97 or "Invalid" in err2 or "definitely lost" in err2:
                    res.update(status="violation", stage="valgrind", reports=re.findall(r"==\d+== ((?:Invalid|Mismatched|[\d,]+ bytes in)[^\n]*)", err2)[:5], stderr=err2[-3000:])
                elif out2.splitlines() != got:
                    res.update(status="violation", stage="valgrind", diff=first_diff(got, out2.splitlines()), reports=[])
                res["valgrind"] = True
    if res["status"] == "ok" and not keep:
        for f in ("libvfprog.a", "driver", "driver_plain"):
            try:
                os.remove(os.path.join(d, f))
            except OSError:
                pass
    return res


def witness(res):
    d = res["dir"]
    w = {k: res.get(k) for k in ("idx", "stage", "rc", "diff", "reports", "context", "detail")}
    w["stderr_tail"] = (res.get("stderr") or "")[-2500:]
    w["dir"] = d
    try:
        w["lib_rs"] = open(os.path.join(d, "lib.rs")).read()[:30000]
    except OSError:
        pass
    if res.get("diff"):
        i = res["diff"][0]
        w["expected_around"] = (res["script"].expected + ["END"])[max(0, i - 4):i + 3]
    return w


def setup():
    toolrun.anchor()


# --------------------------------------------------------------------------
# feature quotas: what the executed calls actually exercised
# --------------------------------------------------------------------------

def ty_productions(prog, t, pos, out):
    k = t[0]
    if k == "prim":
        out[pos + ":prim:" + t[1]] += 1
    elif k == "enum":
        out[pos + ":enum"] += 1
    elif k == "struct":
        s = prog.find(t[1])
        out[pos + (":outstruct" if s.out else ":struct")] += 1
        for fn, ft in s.fields:
            ty_productions(prog, ft, "field", out)
    elif k == "oref":
        out["%s:%s%s" % (pos, "Option<" if t[4] else "", "&mut opaque" if t[2] else "&opaque")] += 1
    elif k == "obox":
        out["%s:%sBox<opaque>" % (pos, "Option<" if t[2] else "")] += 1
    elif k == "opt":
        out["%s:%s<%s>" % (pos, "Option" if t[2] == "std" else "DiplomatOption", t[1][0])] += 1
        ty_productions(prog, t[1], pos + ":optpayload", out)
    elif k == "slice":
        out["%s:%sslice:%s%s" % (pos, "&mut " if t[2] else "&", t[1], ":static" if t[3] == "static" else "")] += 1
    elif k == "oslice":
        out[pos + ":Box<[T]>:" + t[1]] += 1
    elif k == "str":
        out["%s:&str:%s%s" % (pos, t[1], ":static" if t[2] == "static" else "")] += 1
    elif k == "ostr":
        out["%s:Box<str>:%s" % (pos, t[1])] += 1
    elif k == "strs":
        out["%s:&[strslice]:%s" % (pos, t[1])] += 1
    elif k == "result":
        out[pos + ":result"] += 1
        ty_productions(prog, t[1], pos + ":ok", out)
        ty_productions(prog, t[2], pos + ":err", out)
    elif k == "oref" and pos in ("cbarg", "trarg"):
        out["%s:&%sopaque" % (pos, "mut " if t[2] else "")] += 1
    elif k == "obox" and pos in ("cbarg", "trarg"):
        out["%s:Box<opaque> (given for good)" % pos] += 1
    elif k == "cb":
        out[pos + ":callback"] += 1
        if len(t) > 4:
            out[pos + ":callback:static"] += 1
        for a in t[1]:
            ty_productions(prog, a, "cbarg", out)
        ty_productions(prog, t[2], "cbret", out)
    elif k == "tr":
        out[pos + ":trait"] += 1
        for mname, mm, margs, mret in t[2]:
            out["trait:" + ("&mut self" if mm else "&self")] += 1
            if (t[1], mname) in getattr(prog, "trait_mattrs", {}):
                out["trait:method disabled in C"] += 1
            for a in margs:
                ty_productions(prog, a, "trarg", out)
            ty_productions(prog, mret, "trret", out)
    else:
        out[pos + ":" + k] += 1


def productions(res_list):
    import collections
    out = collections.Counter()
    for res in res_list:
        if res.get("status") not in ("ok", "violation"):
            continue
        prog, sc = res["prog"], res["script"]
        for st in sc.steps:
            if st["kind"] == "destroy":
                out["destroy"] += 1
                continue
            if st.get("rejected"):
                out["rejected:utf8"] += 1
                if any(pt[0] == "cb" for _, pt in st["m"].params):
                    out["rejected:utf8 next to a callback"] += 1
                if any(pt[0] in ("oslice", "ostr") or (pt[0] == "opt" and pt[1][0] in ("oslice", "ostr")) for _, pt in st["m"].params):
                    out["rejected:utf8 next to an owned slice"] += 1
                continue
            m, owner = st["m"], st["owner"]
            out["self:%s:%s" % (owner.kind, m.self_kind[0] if m.self_kind else "static")] += 1
            if sum(1 for _, pt in m.params if pt[0] == "cb") > 1:
                out["param:two callbacks in one method"] += 1
            for pn, pt in m.params:
                ty_productions(prog, pt, "param", out)
                if pn in getattr(m, "dip_params", ()):
                    out["param:Diplomat spelling:" + pt[0]] += 1
            ty_productions(prog, m.ret, "ret", out)
            # arms actually taken
            r = st["ret"]
            if m.ret[0] == "result":
                out["arm:" + r[0]] += 1
            if m.ret[0] == "opt":
                out["arm:" + ("some" if r is not None else "none")] += 1
    return out


REQUIRED_C = ["param:prim:u8", "param:prim:i64", "param:prim:f32", "param:prim:f64", "param:prim:bool", "param:prim:DiplomatChar",
              "param:prim:usize", "param:enum", "param:struct", "field:Option<&opaque", "field:&slice", "param:&opaque", "param:&mut opaque",
              "param:Option<&opaque", "param:&slice", "param:&mut slice", "param:Box<[T]>", "param:&str:utf8", "param:&str:ustr",
              "param:&str:u16", "param:Box<str>:utf8", "param:&[strslice]:ustr", "param:&[strslice]:u16", "param:Option<prim>",
              "param:DiplomatOption<prim>", "param:Option<struct>", "param:Option<enum>", "param:Option<slice>", "param:callback",
              "param:write", "ret:unit", "ret:enum", "ret:struct", "ret:outstruct", "ret:Box<opaque>", "ret:Option<Box<opaque>",
              "ret:&opaque", "ret:Option<prim>", "ret:DiplomatOption<prim>", "ret:result", "ret:ok:unit", "ret:err:unit", "ret:ordering",
              "ret:&str:utf8:static", "ret:&slice", "arm:ok", "arm:err", "arm:some", "arm:none", "destroy", "self:struct:val",
              "self:enum:val", "self:opaque:mut", "field:DiplomatOption<prim>", "field:struct",
              "param:trait", "trait:&mut self", "trarg:struct", "trarg:Option<prim>", "trret:Option<prim>", "cbarg:Option<prim>", "cbret:Option<prim>", "param:callback:static", "trait:method disabled in C", "param:Diplomat spelling:slice", "param:Diplomat spelling:str", "param:Diplomat spelling:oslice", "param:Diplomat spelling:strs", "param:two callbacks in one method", "cbarg:Box<opaque>"]


def quota_gaps(prods, required):
    gaps = []
    for r in required:
        if not any(k.startswith(r) and v > 0 for k, v in prods.items()):
            gaps.append(r)
    return gaps


# --------------------------------------------------------------------------
# C03 leg: ownership conservation over generated APIs
# --------------------------------------------------------------------------

def conservation(lines, expected=None):
    """Independent offline checker over the observed event log: every NEW id is DROPped exactly once,
    nothing refers to an id after its DROP, every callback with a destructor is released exactly once."""
    errs = []
    born, dead = {}, {}
    cb_seen, cb_dropped = set(), {}
    for i, l in enumerate(lines):
        if l.startswith("NEW "):
            ident = l[4:]
            if ident in born:
                errs.append("line %d: %s created twice" % (i, ident))
            born[ident] = i
        elif l.startswith("DROP "):
            ident = l[5:]
            if ident not in born:
                errs.append("line %d: %s dropped but never created" % (i, ident))
            if ident in dead:
                errs.append("line %d: %s dropped twice (first at line %d)" % (i, ident, dead[ident]))
            dead[ident] = i
        elif l.startswith("CBDROP "):
            k = l[7:]
            cb_dropped[k] = cb_dropped.get(k, 0) + 1
            if cb_dropped[k] > 1:
                errs.append("line %d: callback %s destructor ran %d times" % (i, k, cb_dropped[k]))
        elif l.startswith(("CALL ", "RET ")):
            for tok in re.findall(r"#(\d+)", l.split(" ", 2)[2] if l.count(" ") >= 2 else ""):
                hits = [d for d in dead if d.endswith("#" + tok)]
                for d in hits:
                    errs.append("line %d: %s refers to %s after its DROP at line %d" % (i, l.split(" ")[1], d, dead[d]))
    for ident in born:
        if ident not in dead:
            errs.append("%s never dropped (leak)" % ident)
    if expected is not None and lines and lines[-1] == "END":
        # callbacks handed over with a destructor (the script knows which): each must have been released by the end of the history
        for l in expected:
            if l.startswith("CBDROP ") and l[7:] not in cb_dropped:
                errs.append("callback %s was handed over with a destructor that never ran (leak)" % l[7:])
    return errs, len(born), len(cb_dropped)


def c03_leg(chk, tier, seed):
    thorough = tier == "thorough"
    nprog = 600 if thorough else 70
    toolrun.anchor()
    prof = dict(out_structs=True, owned_slices=True, callbacks=True, opt_owned=True, held_callbacks=True, write_prob=0.3, cb_orefs=True)

    ncpp = 200 if thorough else 20

    def one(i):
        if i >= nprog:
            # the same histories through the C++ owning wrappers (unique_ptr, std::function with destructor, std::optional)
            # every other program: callbacks early in the parameter list next to several validated strings, so that calls rejected for
            # invalid UTF-8 happen with a callable (and owned buffers) already in the wrapper's hands (seed C03-g)
            r = run_cpp_program(seed + 7500, i - nprog, "c03cpp", profile=(dict(prof, utf8_bias=True, cb_bias=0.3) if i % 2 else prof), ncalls=45, stds=("c++17",))
            r["lang"] = "cpp"
            return r
        cprof = dict(prof, cb_oboxes=True)          # objects given to callbacks / trait methods for good (not expressible through the C++ wrappers: F52)
        r = run_c_program(seed + 7000, i, "c03", profile=(dict(cprof, traits=True, trait_prob=0.3) if i % 2 == 0 else dict(cprof, multi_cb=True, cb_bias=0.25) if i % 4 == 1 else cprof), ncalls=45, valgrind=(i < (60 if thorough else 4)), keep=False)
        r["lang"] = "c"
        return r
    results = pmap(one, range(nprog + ncpp))
    # the same kind of histories driven from Rust as a foreign caller would, interpreted by Miri: the macro's own glue under
    # Stacked Borrows / validity / leak checking (no C compiler's view of the types involved)
    nmiri = 400 if thorough else 40
    mres = run_miri_programs(seed + 7900, nmiri, "c03", profile=dict(prof, traits=True, trait_prob=0.3, multi_cb=True, cb_oboxes=True), ncalls=(40 if thorough else 25),
                             flags_for=lambda i: ["", "-Zmiri-symbolic-alignment-check", "-Zmiri-strict-provenance", "-Zmiri-tree-borrows"][i % 4])
    results += mres
    stats = {"programs": 0, "programs_cpp": 0, "programs_miri": 0, "calls": 0, "objects_tracked": 0, "callbacks_released": 0, "skipped": 0}
    hist = set()
    for r in results:
        if r["status"] == "skip":
            stats["skipped"] += 1
            # a program that never reached its driver (bridge does not compile, tool refuses it, driver emitter lacks a shape) observed
            # nothing: say so per program instead of letting the leg shrink silently
            chk.inconc("api %s p%d skipped at %s: %s" % (r.get("lang"), r["idx"], r.get("stage"), (r.get("detail") or "")[-200:].replace("\n", " ")))
            continue
        if r["status"] == "inconclusive":
            chk.inconc("api p%d: %s" % (r["idx"], r.get("detail")))
            continue
        stats["programs"] += 1
        stats["programs_cpp"] += 1 if r.get("lang") == "cpp" else 0
        stats["programs_miri"] += 1 if r.get("lang") == "miri" else 0
        stats["calls"] += r["calls"]
        got = r.get("observed_lines") or []
        errs, nobj, ncb = conservation(got, r["script"].expected if r.get("script") else None)
        stats["objects_tracked"] += nobj
        stats["callbacks_released"] += ncb
        hist.add("".join({"C": "c", "N": "n", "D": "d", "R": "r"}.get(l[:1], "") for l in got if l[:4] in ("CALL", "NEW ", "DROP", "CBDR")))
        mem = [x for x in (r.get("reports") or []) if any(w in x for w in ("double-free", "use-after", "overflow", "leak", "free", "Invalid", "bytes in", "bad-free", "alloc-dealloc", "miri-"))]
        if errs or mem:
            chk.violation("api-%s-p%d" % (r.get("lang"), r["idx"]), "generated-%s-API history p%d: %s" % (r.get("lang", "c").upper(), r["idx"], (errs + mem)[0]),
                          dict(witness(r), conservation_errors=errs[:10], memory_reports=mem))
        elif r["status"] == "violation" and r.get("stage") == "run" and (r.get("rc") not in (0, None)) and not r.get("diff"):
            chk.violation("api-p%d" % r["idx"], "driver p%d aborted: %s" % (r["idx"], str(r.get("reports"))[:200]), witness(r))
    stats["distinct_histories"] = len(hist)
    return stats


# --------------------------------------------------------------------------
# C++ leg
# --------------------------------------------------------------------------
import emit_cpp

CXXFLAGS = ["-g", "-O0", "-fsanitize=address,undefined", "-fno-sanitize-recover=all", "-fno-omit-frame-pointer"]


CPP_PROFILE = dict(cb_opt=False, cb_slices=False)      # F39: fn_traits cannot convert Option / primitive-slice callback types (C09 probes it)


def run_cpp_program(seed, idx, tag, profile=None, ncalls=40, stds=("c++17", "c++20"), keep=False):
    prog, sc = make_program(seed, idx, dict(CPP_PROFILE, **(profile or {})), ncalls, lang="cpp")
    d = toolrun.fresh_dir(toolrun.workdir(tag, "p%d" % idx))
    src = os.path.join(d, "lib.rs")
    open(src, "w").write(emit_rust.emit_program(prog, bodies=True))
    res = {"idx": idx, "dir": d, "prog": prog, "script": sc, "calls": sum(1 for s in sc.steps if s["kind"] == "call"),
           "rejected_calls": sum(1 for s in sc.steps if s.get("rejected")),
           "events": len(sc.expected), "sigs": [spec.method_sig(t, m) for t, m in prog.methods() if m.name not in ("make", "vf_id")]}
    rc, o, e = toolrun.rustc_lib(src, os.path.join(d, "libvfprog.a"))
    if rc != 0:
        res.update(status="skip", stage="rustc", detail=e[-2000:])
        return res
    rc, o, e = toolrun.run_tool("cpp", src, os.path.join(d, "cpp"), configs=["unsafe_references_in_callbacks=true"])
    kind, det = toolrun.classify_tool(rc, e)
    if kind != "ok":
        res.update(status="skip", stage="tool:" + kind, detail=str(det)[:2000])
        return res
    drv = os.path.join(d, "driver.cpp")
    open(drv, "w").write(emit_cpp.CppEmitter(sc).emit())
    outputs = {}
    res["status"] = "ok"
    for std in stds:
        exe = os.path.join(d, "driver_" + std.replace("+", "p"))
        rc, o, e = run(["g++", "-std=" + std] + CXXFLAGS + ["-I", os.path.join(d, "cpp"), drv, os.path.join(d, "libvfprog.a")] + LINK_LIBS + ["-o", exe], timeout=600)
        if rc != 0:
            res.update(status="violation", stage="g++ -std=" + std, detail=e[-3000:])
            return res
        rc, out, err = run([exe], env=ASAN_ENV, timeout=120, cwd=d)
        got = out.splitlines()
        outputs[std] = got
        res["observed_events"] = len(got)
        res["observed_lines"] = got
        reps = sanitizer_blocks(err)
        diff = first_diff(sc.expected + ["END"], got)
        if rc == -999:
            res.update(status="inconclusive", stage="run", detail="watchdog")
            return res
        if diff or reps or rc != 0:
            res.update(status="violation", stage="run -std=" + std, rc=rc, diff=diff, reports=reps, stderr=err[-3000:],
                       context=got[max(0, (diff[0] if diff else len(got)) - 6):(diff[0] if diff else len(got)) + 3])
            return res
        if not keep:
            os.remove(exe)
    if len(outputs) == 2 and outputs[stds[0]] != outputs[stds[1]]:
        res.update(status="violation", stage="c++17 vs c++20", diff=first_diff(outputs[stds[0]], outputs[stds[1]]), reports=[])
    if not keep:
        try:
            os.remove(os.path.join(d, "libvfprog.a"))
        except OSError:
            pass
    return res


# --------------------------------------------------------------------------
# Miri leg: the macro-expanded bridge driven from Rust as a foreign caller would (emit_rsdrv), interpreted by Miri
# --------------------------------------------------------------------------

MIRI_PATTERNS = [(r"error: Undefined Behavior: ([^\n]*)", "miri-ub"), (r"error: (memory leaked[^\n]*)", "miri-leak"),
                 (r"error: (abnormal termination[^\n]*)", "miri-abort"), (r"(panicked at [^\n]*\n[^\n]*)", "panic"),
                 (r"error: (deadlock[^\n]*)", "miri-deadlock")]


def miri_crate(tag):
    import shutil
    import common
    base = common.instantiate_crate("mirileg")
    d = common.cache_dir("crates", "mirileg-%s-%s-%s" % (common.repo_key(), toolrun.run_id(), tag))
    for f in ("Cargo.toml", "Cargo.lock"):
        shutil.copy(os.path.join(base, f), os.path.join(d, f))
    os.makedirs(os.path.join(d, "src"), exist_ok=True)
    open(os.path.join(d, "src", "main.rs"), "w").write("fn main() {}\n")
    b = os.path.join(d, "src", "bin")
    shutil.rmtree(b, ignore_errors=True)
    os.makedirs(b)
    return d


def miri_run(crate, binname, flags="", timeout=900):
    import common
    cmd = ["cargo", "+" + common.NIGHTLY, "miri", "run", "--offline", "--quiet", "--manifest-path", os.path.join(crate, "Cargo.toml"),
           "--target-dir", common.repo_target("mirileg"), "--bin", binname]
    return run(cmd, env={"MIRIFLAGS": flags}, timeout=timeout)


def run_miri_programs(seed, n, tag, profile=None, ncalls=25, flags_for=lambda i: ""):
    """n generated bridges, each with its scripted history emitted as a Rust driver inside the bridge modules, interpreted by Miri.
    -> list of dict(status=ok|violation|skip|inconclusive, ...)"""
    import emit_rsdrv
    crate = miri_crate(tag)
    progs = []
    for i in range(n):
        prog, sc = make_program(seed, i, profile, ncalls)
        res = {"idx": i, "prog": prog, "script": sc, "calls": sum(1 for s in sc.steps if s["kind"] == "call"), "events": len(sc.expected),
               "bin": "%s_%s_p%d" % (tag, re.sub(r"\W", "", toolrun.run_id()).lower(), i), "dir": crate, "lang": "miri"}
        try:
            prog.epilogue = emit_rsdrv.RsEmitter(sc).emit()
        except emit_rsdrv.Unsupported as e:
            res.update(status="skip", stage="emit", detail="driver emitter: %s" % (e,))
            progs.append(res)
            continue
        src = os.path.join(crate, "src", "bin", res["bin"] + ".rs")
        open(src, "w").write(emit_rust.emit_program(prog, bodies=True))
        res["src"] = src
        progs.append(res)
    todo = [r for r in progs if "status" not in r]

    def one(r):
        rc, out, err = miri_run(crate, r["bin"], flags_for(r["idx"]))
        got = out.splitlines()
        r["observed_lines"] = got
        r["observed_events"] = len(got)
        reps = []
        for pat, label in MIRI_PATTERNS:
            for m in re.finditer(pat, err):
                reps.append("%s: %s" % (label, m.group(1).strip()[:300]))
        diff = first_diff(r["script"].expected + ["END"], got)
        if rc == -999:
            r.update(status="inconclusive", stage="miri", detail="watchdog")
        elif "error: unsupported operation" in err or "could not compile" in err or re.search(r"^error(\[E\d+\])?:", err, re.M) and not reps and not got:
            r.update(status="inconclusive", stage="miri-build", detail=err[-1500:])
        elif diff or reps or rc != 0:
            r.update(status="violation", stage="miri", rc=rc, diff=diff, reports=reps, stderr=err[-4000:],
                     context=got[max(0, (diff[0] if diff else len(got)) - 6):(diff[0] if diff else len(got)) + 3])
        else:
            r.update(status="ok")
        return r
    if todo:
        one(todo[0])                       # builds the dependencies once; the rest only compile their own bin and interpret
        pmap(one, todo[1:])
    return progs


# --------------------------------------------------------------------------
# JS end-to-end leg: the generated JS bindings (spec ABI) against a real wasm32 module of the same bridge
# --------------------------------------------------------------------------

def set_pointer_width(bits):
    """usize/isize are 32 bits wide on wasm32: values, canonical forms and literals follow spec.INTS."""
    spec.INTS["isize"] = (bits, True)
    spec.INTS["usize"] = (bits, False)


JS_E2E_PROFILE = dict(out_structs=True, owned_slices=True, opt_owned=True)


def scalar_leaves(prog, t):
    k = t[0]
    if k == "struct":
        return [l for fn, ft in prog.find(t[1]).fields for l in scalar_leaves(prog, ft)]
    if k in ("slice", "str", "oslice", "ostr", "strs"):
        return ["ptr", "len"]
    if k == "opt" and t[1][0] not in ("oref", "obox"):
        return ["union", "flag"]
    return [k if k != "opt" else t[1][0]]


def avoid_f23(prog):
    """(unused since F23 was repaired; kept for bisecting older trees) a struct whose only scalar is an enum or an opaque pointer used to be passed
    as an aggregate by the generated JS while rustc passes the scalar; this gives such structs a second scalar."""
    for t in prog.types():
        if t.kind in ("struct", "outstruct"):
            leaves = scalar_leaves(prog, ("struct", t.name))
            if len(leaves) == 1 and leaves[0] in ("enum", "oref", "obox"):
                t.fields.append(("fx", ("prim", "u8")))


def run_js_program(seed, idx, tag, profile=None, ncalls=30, keep=False, rewrap=False):
    """dict(status=ok|violation|skip|inconclusive, ...) for one generated bridge driven through its generated JS bindings in node."""
    import emit_js
    import profiles
    import tooltier
    import wasm32
    assert spec.INTS["usize"][0] == 32, "call set_pointer_width(32) first"
    prof = dict(profiles.gen_profile("js"))
    prof.update(tooltier.AVOID.get("js", {}))
    prof.update(JS_E2E_PROFILE)
    prof.update(profile or {})
    prog, sc = make_program(seed, idx, prof, ncalls, lang="js")
    return run_js_prepared(prog, sc, idx, tag, keep=keep, rewrap=rewrap)


def run_js_prepared(prog, sc, idx, tag, keep=False, rewrap=False):
    import emit_js
    import wasm32
    d = toolrun.fresh_dir(toolrun.workdir(tag, "p%d" % idx))
    res = {"idx": idx, "dir": d, "prog": prog, "script": sc, "calls": sum(1 for s in sc.steps if s["kind"] == "call"), "events": len(sc.expected), "lang": "js",
           "sigs": [spec.method_sig(t, m) for t, m in prog.methods() if m.name not in ("make", "vf_id")]}
    try:
        drv = emit_js.JsEmitter(sc, rewrap=rewrap).emit()
    except emit_js.Unsupported as e:
        res.update(status="skip", stage="emit", detail="driver emitter: %s" % (e,))
        return res
    src = os.path.join(d, "lib.rs")
    open(src, "w").write(emit_rust.emit_program(prog, bodies=True, target="wasm"))
    rc, e = wasm32.compile_bridge(src, os.path.join(d, "vfprog.wasm"))
    if rc != 0:
        res.update(status="skip", stage="rustc-wasm32", detail=e[-2500:])
        return res
    out = os.path.join(d, "js")
    rc, o, e = toolrun.run_tool("js", src, out, configs=["js.abi=spec"])
    kind, det = toolrun.classify_tool(rc, e)
    if kind != "ok":
        res.update(status="skip", stage="tool:" + kind, detail=str(det)[:2000])
        return res
    open(os.path.join(d, "diplomat.config.mjs"), "w").write("export default { wasm_path: new URL('./vfprog.wasm', import.meta.url) };\n")
    open(os.path.join(out, "vf_driver.mjs"), "w").write(drv)
    rc, outp, err = run(["node", "--expose-gc", os.path.join(out, "vf_driver.mjs")], timeout=300, cwd=out)
    got_all = outp.splitlines()
    live = [l for l in got_all if l.startswith("LIVE ")]
    got = [l for l in got_all if not l.startswith(("DROP ", "LIVE ", "UNCAUGHT"))]
    res["uncaught"] = [l for l in got_all if l.startswith("UNCAUGHT ")]
    exp = [l for l in sc.expected if not l.startswith("DROP ")] + ["END"]
    res["observed_lines"] = got_all
    res["observed_events"] = len(got)
    res["live"] = live[0] if live else None
    diff = first_diff(exp, got)
    end = got_all.index("END") if "END" in got_all else len(got_all)
    res["early_drops"] = [l for l in got_all[:end] if l.startswith("DROP ")]       # the driver still holds every handle until END
    reps = [l for l in got_all if l.startswith(("PANIC", "GUARD-CORRUPTED", "DRIVER-EXCEPTION", "EXHAUSTED"))]
    reps += ["destroyed while a handle to it is still reachable: " + l for l in res["early_drops"][:3]]
    if "unreachable" in err or "RuntimeError" in err:
        reps.append("wasm trap: " + err.strip().splitlines()[-1][:200] if err.strip() else "wasm trap")
    if rc == -999:
        res.update(status="inconclusive", stage="node", detail="watchdog")
    elif diff or reps or rc != 0:
        res.update(status="violation", stage="node", rc=rc, diff=diff, reports=reps, stderr=err[-3000:],
                   context=got[max(0, (diff[0] if diff else len(got)) - 6):(diff[0] if diff else len(got)) + 3])
    else:
        res.update(status="ok")
        if not keep:
            try:
                os.remove(os.path.join(d, "vfprog.wasm"))
            except OSError:
                pass
    return res


def js_e2e_leg(chk, seed, n, tag, profile=None, rewrap=False, ncalls=30, only=None, label="js-e2e", prepared=None):
    """Runs n generated bridges through their generated JS (spec ABI) on a real wasm32 module; reports through chk.
    only(res) -> bool may restrict which disagreements belong to the calling property. Returns stats."""
    import wasm32
    set_pointer_width(32)
    wasm32.e2e_artifacts()
    if prepared:
        # prepared(i) -> Program built by the caller (after the pointer width switch): finish it and run it
        def one(i):
            prog, sc = finish_program(prepared(i), seed, i, ncalls, lang="js")
            return run_js_prepared(prog, sc, i, tag, rewrap=rewrap)
        results = pmap(one, range(n))
    else:
        results = pmap(lambda i: run_js_program(seed, i, tag, profile=profile, ncalls=ncalls, rewrap=rewrap), range(n))
    st = {"programs": 0, "calls": 0, "events": 0, "skipped": 0, "finalizer_exceptions": 0, "live_blocks_at_end": 0, "distinct_shapes": set()}
    for r in results:
        if r["status"] == "skip":
            st["skipped"] += 1
            chk.inconc("%s p%d skipped at %s: %s" % (label, r["idx"], r["stage"], (r.get("detail") or "")[-300:].replace("\n", " ")))
            continue
        if r["status"] == "inconclusive":
            chk.inconc("%s p%d: %s" % (label, r["idx"], r.get("detail")))
            continue
        st["programs"] += 1
        st["calls"] += r["calls"]
        st["events"] += r.get("observed_events", 0)
        st["finalizer_exceptions"] += len(r.get("uncaught") or [])
        st["distinct_shapes"].update(r["sigs"])
        if r.get("live"):
            try:
                st["live_blocks_at_end"] += int(r["live"].split()[1])
            except ValueError:
                pass
        if r["status"] == "violation" and (only is None or only(r)):
            d = r.get("diff")
            what = ("event %d expected `%s` observed `%s`" % d) if d else str(r.get("reports") or r.get("stderr"))[:300]
            chk.violation("%s_p%d" % (label.replace("-", ""), r["idx"]), "%s p%d (generated JS, js.abi=spec, on a real wasm32 module of the same bridge): %s%s" % (
                label, r["idx"], what, ("; " + "; ".join(r["reports"][:2])) if d and r.get("reports") else ""), witness(r))
    st["distinct_shapes"] = len(st["distinct_shapes"])
    return st
