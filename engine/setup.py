"""./vf setup — warm every cache offline so that quick checks only pay incremental builds."""
import common


def main():
    try:
        # scratch directories of an older layout (before they became private to a (check, tier) run)
        import os, re, shutil
        w = os.path.join(common.CACHE, "work")
        for k in (os.listdir(w) if os.path.isdir(w) else []):
            for d in os.listdir(os.path.join(w, k)):
                if not re.match(r"(C\d\d-(quick|thorough)|adhoc|setup)$", d):
                    shutil.rmtree(os.path.join(w, k, d), ignore_errors=True)
        os.environ.setdefault("VF_RUN", "setup")
        common.build_tool()
        import rt
        for k in ("debug", "release", "asan"):
            rt.binary(k)
        rt.miri_prepare()
        import api
        api.setup()
        api.run_miri_programs(0, 2, "setup", dict(out_structs=True, owned_slices=True, callbacks=True, opt_owned=True), 10)
        import wasm32
        wasm32.sysroot()
        wasm32.e2e_artifacts()
        common.cargo_build_crate(common.instantiate_crate("hirdump"), "stable", bin_name="hirdump")
    except common.Inconclusive as e:
        common.log("setup failed: %s" % e)
        return 1
    return 0
