"""./vf setup — warm every cache offline so that quick checks only pay incremental builds."""
import common


def main():
    try:
        common.build_tool()
        import rt
        for k in ("debug", "release", "asan"):
            rt.binary(k)
        rt.miri_prepare()
        import api
        api.setup()
        api.run_miri_programs(0, 2, "setup", dict(out_structs=True, owned_slices=True, callbacks=True, opt_owned=True), 10)
        import wasm32
        wasm32.sysroot()
        common.cargo_build_crate(common.instantiate_crate("hirdump"), "stable", bin_name="hirdump")
    except common.Inconclusive as e:
        common.log("setup failed: %s" % e)
        return 1
    return 0
