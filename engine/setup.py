"""./vf setup — warm every cache offline so that quick checks only pay incremental builds."""
import common


def main():
    try:
        common.build_tool()
        import rt
        for k in ("debug", "release", "asan"):
            rt.binary(k)
        rt.miri_prepare()
        try:
            import api
            api.setup()
        except ImportError:
            pass
    except common.Inconclusive as e:
        common.log("setup failed: %s" % e)
        return 1
    return 0
