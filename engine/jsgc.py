"""C04 dynamic leg: V8 garbage-collection liveness monitor over the generated JS.

The generated classes are loaded against a stub wasm module (any export returns a fresh pointer; diplomat_alloc hands out
pattern-filled memory so that result flags read as Ok / Err on demand and returned pointers are non-null). For every
method the driver builds fresh argument objects, calls the method, keeps only the returned object, drops every other strong
reference, forces full GCs (node --expose-gc) and lets finalizers run. Then it observes
  * which argument objects are still reachable (WeakRef) and whether their destructor export was called,
  * which argument buffers (slices / strings) were handed back to diplomat_free,
and compares with the inputs the returned value may borrow from (the outlives closure of the signature).
An argument that died or was freed while the result is alive is a use-after-free waiting to happen: a violation.
GC imprecision can only keep objects alive longer, never kill them early, so the monitor cannot raise a false alarm;
it proves non-vacuity by counting arguments that are *not* borrowed and did get collected."""
import json
import os
import re

STUB = r'''
const memory = new WebAssembly.Memory({ initial: 128 });
let next = 65536;
let nextPtr = 0x200000;
const st = { allocs: [], frees: [], destroyed: [], calls: [], uncaught: [], pattern: [1, 1, 0, 0], memory };
process.on("uncaughtException", (e) => { st.uncaught.push(String(e && e.stack || e).split("\n").slice(0, 3).join(" | ").slice(0, 300)); });
globalThis.__vf = st;
const base = {
  memory,
  diplomat_alloc(size, align) {
    const a = Math.max(align || 1, 8);
    const p = Math.ceil(next / a) * a;
    next = p + Math.max(size, 1) + 16;
    const u = new Uint8Array(memory.buffer, p, size);
    for (let i = 0; i < size; i++) u[i] = st.pattern[i % 4];
    st.allocs.push([p, size]);
    return p;
  },
  diplomat_free(p, size, align) { st.frees.push([p, size]); },
};
export default new Proxy(base, {
  get(t, name) {
    if (name in t) return t[name];
    if (typeof name !== "string") return undefined;
    return (...args) => {
      if (name.endsWith("_destroy")) { st.destroyed.push(args[0]); return; }
      st.calls.push([name, args.map(a => typeof a === "bigint" ? "big:" + a : a)]);
      nextPtr += 64;
      return nextPtr;
    };
  },
  has() { return true; },
});
'''

DRIVER = r'''
import fs from "node:fs";
import path from "node:path";
import { pathToFileURL } from "node:url";
const here = path.dirname(new URL(import.meta.url).pathname);
const spec = JSON.parse(fs.readFileSync(path.join(here, "vf_gc.json"), "utf8"));
const rt = await import(pathToFileURL(path.join(here, "diplomat-runtime.mjs")));
await import(pathToFileURL(path.join(here, "diplomat-wasm.mjs")));
const st = globalThis.__vf;
const IC = rt.internalConstructor;
const mods = {};
async function cls(name) { if (!mods[name]) mods[name] = (await import(pathToFileURL(path.join(here, name + ".mjs"))))[name]; return mods[name]; }
let argPtr = 0x100000;
const sleep = () => new Promise(r => setTimeout(r, 0));
async function settle() { for (let i = 0; i < 5; i++) { globalThis.gc(); await sleep(); } }

// build one argument; registers every JS object that should be tracked in `tracked` (name -> object) and every buffer size in `bufs`
async function build(p, tracked, bufs, vals) {
  vals = vals || {};
  const v_ = await build_(p, tracked, bufs, vals);
  vals[p.name] = v_;
  return v_;
}
async function build_(p, tracked, bufs, vals) {
  const mk = async (cname, nlts, tag) => { argPtr += 64; const C = await cls(cname); const o = new C(IC, argPtr, [], ...Array(nlts).fill([])); tracked[tag] = { obj: o, ptr: argPtr }; return o; };
  if (p.kind === "op") return mk("Op", 0, p.name);
  if (p.kind === "opl") return mk("OpL", 2, p.name);
  if (p.kind === "opb") return mk("OpB", 2, p.name);
  if (p.kind === "u8s") { bufs[p.name] = p.n; return Array.from({ length: p.n }, (_, i) => i & 0x7f); }
  if (p.kind === "f64s") { bufs[p.name] = p.n * 8; return Array.from({ length: p.n }, (_, i) => i + 0.5); }
  if (p.kind === "str8") { bufs[p.name] = p.n; return "s".repeat(p.n); }
  if (p.kind === "str16") { bufs[p.name] = p.n * 2; return "w".repeat(p.n); }
  if (p.kind === "stl") {
    const a = await mk("Op", 0, p.name + ".a");
    bufs[p.name + ".b"] = p.n;
    const C = await cls("StL");
    vals[p.name + ".a"] = a; vals[p.name + ".b"] = "t".repeat(p.n);
    return new C({ a, b: vals[p.name + ".b"], n: 7 });
  }
  if (p.kind === "stb") {
    const a = await mk("Op", 0, p.name + ".a");
    const c = await mk("Op", 0, p.name + ".c");
    bufs[p.name + ".b"] = p.n * 2;
    const C = await cls("StB");
    vals[p.name + ".a"] = a; vals[p.name + ".c"] = c; vals[p.name + ".b"] = Array.from({ length: p.n }, (_, i) => i);
    return new C({ a, b: vals[p.name + ".b"], c });
  }
  if (p.kind === "nested") {
    const obj = {};
    for (const f of p.fields) {
      const sub = Object.assign({}, f, { name: p.name + "." + f.name });
      obj[f.name] = f.kind === "u16" ? 5 : await build(sub, tracked, bufs, vals);
    }
    const C = await cls(p.cls);
    return new C(obj);
  }
  throw new Error("unknown kind " + p.kind);
}

async function runCase(c, mode) {
  st.pattern = mode === "ok" ? [1, 1, 0, 0] : [0, 1, 0, 0];
  const tracked = {}, bufs = {};
  let holder = {};
  const H = await cls(c.holder);
  if (!c.static) { argPtr += 64; holder.self = new H(IC, argPtr, [], ...Array(c.impl_lts).fill([])); tracked["this"] = { obj: holder.self, ptr: argPtr }; }
  holder.args = [];
  for (const p of c.params) holder.args.push(await build(p, tracked, bufs));
  const a0 = st.allocs.length, f0 = st.frees.length;
  let res = null, threw = null;
  const mname = c.method || "m";
  try { res = c.static ? H[mname](...holder.args) : holder.self[mname](...holder.args); }
  catch (e) { threw = String(e && e.message || e).slice(0, 200); res = (e && typeof e.cause === "object") ? e.cause : null; }
  const allocs = st.allocs.slice(a0);
  const out = { holder: c.holder, method: c.method || "m", mode, threw, hasResult: res !== null && res !== undefined && typeof res === "object", weak: {}, ptrs: {}, bufs, allocs, f0 };
  for (const [k, v] of Object.entries(tracked)) { out.weak[k] = new WeakRef(v.obj); out.ptrs[k] = v.ptr; }
  holder = null;
  return { res, out };
}

// ---- _fieldsForLifetimeX getters of nested borrowing structs, evaluated (not parsed): before and after reassigning a field of a *nested*
// struct in place (the outer object is the same, its getters must follow)
const getters = [];
for (const g of (spec.getters || [])) {
  try {
    const tracked = {}, bufs = {}, vals = {};
    const sObj = await build({ name: "s", kind: "nested", cls: g.cls, fields: g.fields }, tracked, bufs, vals);
    const label = (el) => {
      for (const [k, v] of Object.entries(vals)) { if (k !== "s" && (v === el || (typeof v === "string" && typeof el === "string" && v === el))) return k; }
      return "?" + typeof el;
    };
    const snap = () => { const o = {}; for (const lt of g.lts) { const arr = sObj["_fieldsForLifetime" + lt.toUpperCase()]; o[lt] = Array.isArray(arr) ? arr.map(label) : ["<not an array: " + typeof arr + ">"]; } return o; };
    const before = snap();
    const replaced = [];
    for (const f of g.fields) if (f.kind === "stl" || f.kind === "stb") {
      argPtr += 64; const Op = await cls("Op"); const fresh = new Op(IC, argPtr, []);
      delete vals["s." + f.name + ".a"]; vals["s." + f.name + ".a#2"] = fresh;
      sObj[f.name].a = fresh; replaced.push("s." + f.name + ".a");
    }
    getters.push({ cls: g.cls, before, after: snap(), replaced });
  } catch (e) { getters.push({ cls: g.cls, harness_error: String(e && e.stack || e).slice(0, 300) }); }
}

const pending = [];
for (const c of spec.cases) for (const mode of c.modes) {
  try { pending.push(await runCase(c, mode)); }
  catch (e) { pending.push({ res: null, out: { holder: c.holder, mode, harness_error: String(e && e.stack || e).slice(0, 400) } }); }
}
await settle();
const report = [];
for (const { res, out } of pending) {
  if (out.harness_error) { report.push(out); continue; }
  const alive = {}, destroyed = {};
  for (const [k, w] of Object.entries(out.weak)) { alive[k] = w.deref() !== undefined; destroyed[k] = st.destroyed.includes(out.ptrs[k]); }
  const freed = {};
  const frees = st.frees.slice(out.f0).map(f => f[0]);
  for (const [k, size] of Object.entries(out.bufs)) {
    const mine = out.allocs.filter(a => a[1] === size).map(a => a[0]);
    freed[k] = mine.length === 0 ? null : mine.every(p => frees.includes(p));
  }
  report.push({ holder: out.holder, method: out.method, mode: out.mode, threw: out.threw, hasResult: out.hasResult, alive, destroyed, freed, resultStillHeld: res !== undefined });
}
// second phase: drop the results as well; everything should now be collectable (evidence only)
let released = 0, total = 0;
const weaks = pending.filter(p => p.out.weak).map(p => Object.values(p.out.weak));
pending.length = 0;
await settle();
for (const ws of weaks) for (const w of ws) { total++; if (w.deref() === undefined) released++; }
console.log(JSON.stringify({ report, getters, released_after_results_dropped: released, tracked_total: total, uncaught: st.uncaught }));
'''

ARM_RE = re.compile(r"^Result<(.*)>$")


def split_top(s):
    depth, cur, out = 0, "", []
    for ch in s:
        if ch == "<":
            depth += 1
        elif ch == ">":
            depth -= 1
        if ch == "," and depth == 0:
            out.append(cur.strip())
            cur = ""
        else:
            cur += ch
    out.append(cur.strip())
    return out


def held_lifetimes(ty):
    """lifetimes through which the *JS object* for a value of this type keeps borrowing after the call returned: opaque handles keep
    every lifetime they name; a returned struct keeps the lifetime of its opaque-reference field (`a: &'p Op`, the first slot of
    StL / OutL) while its slice and string fields are copied into JS arrays / strings by _fromFFI; bare slices and strings are copied."""
    inner = re.sub(r"^Option<(.*)>$", r"\1", ty.strip())
    m = re.match(r"^(StL|OutL)<'(\w+), '(\w+)>$", inner)
    if m:
        return {m.group(2)}
    if "Op" in inner:
        return set(re.findall(r"'(\w+)", inner))
    return set()


def arm_lifetimes(ret):
    """-> (lifetimes held by an Ok/Some result object, lifetimes held by the Err value)"""
    m = ARM_RE.match(ret)
    if m:
        ok, err = split_top(m.group(1))
        return held_lifetimes(ok), held_lifetimes(err)
    return held_lifetimes(ret), set()


def holds(ty):
    return any(w in ty for w in ("Op", "StL", "OutL"))


def case_for(s, expected_edges, sizes):
    """JSON description of one signature for the driver + must-stay-alive sets per mode."""
    params = []
    for name, kind, ty, lts, defs in s.params:
        n = sizes[name]
        if kind == "opaque":
            k = "opl" if "OpL" in ty else ("opb" if "OpB" in ty else "op")
        elif kind == "slice":
            k = "u8s" if "[u8]" in ty else ("f64s" if "[f64]" in ty else ("str16" if "Str16" in ty else "str8"))
        else:
            k = "stl" if ty.startswith("StL") else "stb"
        params.append({"name": name, "kind": k, "n": n})
    exp = expected_edges(s)
    m = ARM_RE.match(s.ret)
    ok_ty, err_ty = (split_top(m.group(1)) if m else (s.ret, ""))
    ok_lts, err_lts = arm_lifetimes(s.ret)
    must = {}
    for mode, lts, ty in (("ok", ok_lts, ok_ty), ("err", err_lts, err_ty)):
        need = set()
        if holds(ty):
            for lt in lts:
                for pn, kind in exp.get(lt, ()):
                    if kind == "opaque":
                        need.add(("obj", pn))
                    elif kind == "slice":
                        need.add(("buf", pn))
                    elif kind.startswith("struct:"):
                        pty = [p[2] for p in s.params if p[0] == pn][0]
                        which = kind.split(":")[1]
                        if pty.startswith("StL"):
                            need.add(("obj", pn + ".a") if which == "p" else ("buf", pn + ".b"))
                        else:
                            if which == "p":
                                need.add(("obj", pn + ".a"))
                            else:
                                need.add(("buf", pn + ".b"))
                                need.add(("obj", pn + ".c"))
        must[mode] = sorted(need)
    modes = ["ok"] + (["err"] if m and holds(err_ty) else [])
    return {"holder": s.holder, "static": s.self_lt == "none", "impl_lts": len(s.impl_lts), "params": params, "modes": modes}, must


def unique_sizes(sigs):
    """element counts per parameter such that every buffer of one call has a distinct byte size"""
    out = {}
    for s in sigs:
        used, sizes = set(), {}
        n = 3
        for name, kind, ty, lts, defs in s.params:
            width = 8 if "[f64]" in ty else (2 if ("Str16" in ty or ty.startswith("StB")) else 1)
            while n * width in used or n * width in (17, 5, 8, 16, 4, 12, 13):     # keep clear of receive-buffer sizes
                n += 1
            used.add(n * width)
            sizes[name] = n
            n += 1
        out[s.holder] = sizes
    return out


def write_harness(outdir, cases, getters=None):
    open(os.path.join(outdir, "diplomat-wasm.mjs"), "w").write(STUB)
    open(os.path.join(outdir, "vf_gc.mjs"), "w").write(DRIVER)
    json.dump({"cases": cases, "getters": getters or []}, open(os.path.join(outdir, "vf_gc.json"), "w"))


def getter_cases(nested, ncases):
    """one entry per nested struct: its JS field description (taken from the cases nested_cases() built) and the labels each lifetime's getter must yield"""
    out = []
    for name, lts, fields in nested:
        jf = [c for c in ncases if c["params"][0]["cls"] == name][0]["params"][0]["fields"]
        exp = {}
        for l in lts:
            need = set()
            for fn, ty, uses in fields:
                for kind, ul in uses:
                    if ul != l:
                        continue
                    if kind == "direct":
                        need.add("s." + fn)
                    elif kind == "p":
                        need.add("s.%s.a" % fn)
                    else:
                        need.add("s.%s.b" % fn)
                        if ty.startswith("StB"):
                            need.add("s.%s.c" % fn)
            exp[l] = sorted(need)
        out.append({"cls": name, "lts": lts, "fields": jf, "expected": exp})
    return out


def nested_cases(nested):
    """Rust source of holder opaques whose static methods take each nested struct and return `&'x Op` / `&'y Op`,
    the driver cases and the must-stay-alive sets {(holder, method): [...]}."""
    src, cases, musts = [], [], {}
    for name, lts, fields in nested:
        holder = "NH" + name[1:]
        gens = ", ".join("'" + l for l in lts)
        src.append("    #[diplomat::opaque] pub struct %s(pub u8);\n    impl %s {\n" % (holder, holder))
        for l in lts:
            src.append("        pub fn n%s<%s>(s: %s<%s>) -> &'%s Op { unimplemented!() }\n" % (l, gens, name, gens, l))
        src.append("    }\n")
        jf, n, used = [], 3, set()

        def size(width):
            nonlocal n
            while n * width in used or n * width in (4, 5, 8, 12, 13, 16, 17):
                n += 1
            used.add(n * width)
            n += 1
            return n - 1
        for fn, ty, uses in fields:
            if ty.startswith("&"):
                jf.append({"name": fn, "kind": "op", "n": 0})
            elif ty.startswith("DiplomatSlice"):
                jf.append({"name": fn, "kind": "u8s", "n": size(1)})
            elif ty.startswith("StL"):
                jf.append({"name": fn, "kind": "stl", "n": size(1)})
            elif ty.startswith("StB"):
                jf.append({"name": fn, "kind": "stb", "n": size(2)})
            else:
                jf.append({"name": fn, "kind": "u16", "n": 0})
        for l in lts:
            need = set()
            for fn, ty, uses in fields:
                for kind, ul in uses:
                    if ul != l:
                        continue
                    if kind == "direct":
                        need.add(("obj" if ty.startswith("&") else "buf", "s." + fn))
                    elif kind == "p":
                        need.add(("obj", "s.%s.a" % fn))
                    else:
                        need.add(("buf", "s.%s.b" % fn))
                        if ty.startswith("StB"):
                            need.add(("obj", "s.%s.c" % fn))
            cases.append({"holder": holder, "method": "n" + l, "static": True, "impl_lts": 0, "modes": ["ok"],
                          "params": [{"name": "s", "kind": "nested", "cls": name, "fields": jf}]})
            musts[(holder, "n" + l)] = {"ok": sorted(need)}
    return "".join(src), cases, musts
