"""Spec -> Rust source of a bridge crate.

bodies=False: every method body is `unimplemented!()` (the tool never reads bodies).
bodies=True : bodies are the instrumentation — they log a CALL record with the canonical
              form of every argument, run the scripted callbacks / writes / mutations and
              return the n-th entry of the per-method table filled in by calls.py.
"""
from spec import INTS, FLOATS, prim_bits


def lt_s(lt, always=False):
    if lt is None:
        return ""
    return "'%s " % lt


def rs_prim(p):
    return p


def struct_generics(prog, name, lt="a"):
    s = prog.find(name)
    if getattr(s, "lifetimes", None):
        return "<%s>" % ", ".join("'" + (lt or "_") for _ in s.lifetimes)
    return ""


def rs_ty(prog, t, lt_for_structs="a"):
    k = t[0]
    if k == "raw":
        return t[1]
    if k == "prim":
        return t[1]
    if k == "enum":
        return t[1]
    if k == "struct":
        return t[1] + struct_generics(prog, t[1], lt_for_structs)
    if k == "oref":
        gen = struct_generics(prog, t[1], lt_for_structs)
        inner = "&%s%s%s%s" % (lt_s(t[3]), "mut " if t[2] else "", t[1], gen)
        return "Option<%s>" % inner if t[4] else inner
    if k == "obox":
        gen = struct_generics(prog, t[1], lt_for_structs)
        inner = "Box<%s%s>" % (t[1], gen)
        return "Option<%s>" % inner if t[2] else inner
    if k == "opt":
        return "%s<%s>" % ("Option" if t[2] == "std" else "DiplomatOption", rs_ty(prog, t[1], lt_for_structs))
    if k == "slice":
        _, p, mut, lt, sp = t
        if sp == "std":
            return "&%s%s[%s]" % (lt_s(lt), "mut " if mut else "", p)
        return "%s<%s%s>" % ("DiplomatSliceMut" if mut else "DiplomatSlice", "'%s, " % lt if lt else "", p)
    if k == "oslice":
        return "Box<[%s]>" % t[1]
    if k == "str":
        _, enc, lt, sp = t
        if sp == "std":
            return "&%s%s" % (lt_s(lt), {"utf8": "str", "ustr": "DiplomatStr", "u16": "DiplomatStr16"}[enc])
        return "%s%s" % ({"utf8": "DiplomatUtf8StrSlice", "ustr": "DiplomatStrSlice", "u16": "DiplomatStr16Slice"}[enc],
                         "<'%s>" % lt if lt else "")
    if k == "ostr":
        return "Box<%s>" % {"utf8": "str", "ustr": "DiplomatStr", "u16": "DiplomatStr16"}[t[1]]
    if k == "strs":
        return "&[%s]" % {"utf8": "DiplomatUtf8StrSlice", "ustr": "DiplomatStrSlice", "u16": "DiplomatStr16Slice"}[t[1]]
    if k == "result":
        return "%s<%s, %s>" % ("Result" if t[3] == "std" else "DiplomatResult", rs_ty(prog, t[1], lt_for_structs), rs_ty(prog, t[2], lt_for_structs))
    if k == "unit":
        return "()"
    if k == "ordering":
        return "core::cmp::Ordering"
    if k == "write":
        return "&mut DiplomatWrite"
    if k == "cb":
        args = ", ".join(rs_ty(prog, a, lt_for_structs) for a in t[1])
        ret = "" if t[2] == ("unit",) else " -> " + rs_ty(prog, t[2], lt_for_structs)
        return "impl %s(%s)%s%s" % ("FnMut" if t[3] else "Fn", args, ret, " + 'static" if len(t) > 4 else "")
    if k == "tr":
        return "impl " + t[1]
    raise ValueError(t)


def dip_param_ty(pt):
    """Diplomat spelling of a slice / string parameter type (the std spelling is what rs_ty prints)."""
    k = pt[0]
    if k == "slice":
        _, p, mut, lt, _ = pt
        return "%s<%s%s>" % ("DiplomatSliceMut" if mut else "DiplomatSlice", "'%s, " % lt if lt else "", p)
    if k == "str":
        _, enc, lt, _ = pt
        return "%s%s" % ({"utf8": "DiplomatUtf8StrSlice", "ustr": "DiplomatStrSlice", "u16": "DiplomatStr16Slice"}[enc], "<'%s>" % lt if lt else "")
    if k == "oslice":
        return "DiplomatOwnedSlice<%s>" % pt[1]
    if k == "ostr":
        return {"utf8": "DiplomatOwnedUTF8StrSlice", "ustr": "DiplomatOwnedStrSlice", "u16": "DiplomatOwnedStr16Slice"}[pt[1]]
    if k == "strs":
        return "DiplomatSlice<%s>" % {"utf8": "DiplomatUtf8StrSlice", "ustr": "DiplomatStrSlice", "u16": "DiplomatStr16Slice"}[pt[1]]
    raise ValueError(pt)


def attrs_s(attrs, indent):
    return "".join("%s%s\n" % (indent, a) for a in attrs)


# ---------------------------------------------------------------- literals (bodies=True)

def prim_lit(p, bits):
    if p in INTS:
        w, signed = INTS[p]
        v = bits & ((1 << w) - 1)
        if signed and v >= 1 << (w - 1):
            v -= 1 << w
        if v < 0:
            return "(%d%s)" % (v, p) if v != -(1 << (w - 1)) else "%s::MIN" % p
        return "%d%s" % (v, p)
    if p == "f32":
        return "f32::from_bits(0x%08x)" % (bits & 0xFFFFFFFF)
    if p == "f64":
        return "f64::from_bits(0x%016x)" % (bits & 0xFFFFFFFFFFFFFFFF)
    if p == "bool":
        return "true" if bits else "false"
    if p == "char":
        return "char::from_u32(0x%x).unwrap()" % bits
    if p in ("DiplomatChar",):
        return "0x%xu32" % bits
    if p == "DiplomatByte":
        return "%du8" % bits
    raise KeyError(p)


def bytes_lit(b):
    return "&[" + ", ".join("%du8" % x for x in b) + "]"


def value_expr(prog, t, v):
    """Rust expression producing value v of (return-position) type t."""
    k = t[0]
    if k == "prim":
        return prim_lit(t[1], v)
    if k == "enum":
        en = prog.find(t[1])
        return "%s::%s" % (t[1], en.variants[v][0])
    if k == "struct":
        s = prog.find(t[1])
        return "%s { %s }" % (t[1], ", ".join("%s: %s" % (fn, value_expr(prog, ft, v[fn])) for fn, ft in s.fields))
    if k == "obox":
        if v is None:
            return "None"
        if getattr(prog.find(t[1]), "holder", None):
            e = "Box::new(%s::vf_hold(%d, Box::new(f)))" % (t[1], v["seed"])
        else:
            e = "Box::new(%s::vf_new(%d))" % (t[1], v["seed"])
        return "Some(%s)" % e if t[2] else e
    if k == "oref":
        # v: ("param", name) | ("self",) | None
        if v is None:
            return "None"
        e = "self" if v[0] == "self" else v[1]
        return "Some(%s)" % e if t[4] else e
    if k == "opt":
        if v is None:
            return "None" if t[2] == "std" else "None.into()"
        inner = value_expr(prog, t[1], v[1])
        return "Some(%s)" % inner if t[2] == "std" else "Some(%s).into()" % inner
    if k == "result":
        arm, pv = v
        pt = t[1] if arm == "ok" else t[2]
        e = "%s(%s)" % ("Ok" if arm == "ok" else "Err", value_expr(prog, pt, pv))
        return e if t[3] == "std" else e + ".into()"
    if k == "unit":
        return "()"
    if k == "ordering":
        return ["core::cmp::Ordering::Less", "core::cmp::Ordering::Equal", "core::cmp::Ordering::Greater"][v + 1]
    if k in ("slice", "str"):
        # v: ("param", name) or ("static", data)
        if v[0] == "param":
            return v[1] if (t[4] if k == "slice" else t[3]) == "std" else "%s.into()" % v[1]
        data = v[1]
        if k == "str":
            enc = t[1]
            if enc == "utf8":
                e = "core::str::from_utf8(%s).unwrap()" % static_bytes(data)
            elif enc == "ustr":
                e = static_bytes(data)
            else:
                e = "{ static D: [u16; %d] = [%s]; &D[..] }" % (len(data), ", ".join(str(x) for x in data))
            return e if t[3] == "std" else "(%s).into()" % e
        p = t[1]
        e = "{ static D: [%s; %d] = [%s]; &D[..] }" % (p, len(data), ", ".join(static_prim_lit(p, x) for x in data))
        return e if t[4] == "std" else "(%s).into()" % e
    raise ValueError(t)


def static_bytes(b):
    return "{ static D: [u8; %d] = [%s]; &D[..] }" % (len(b), ", ".join(str(x) for x in b))


def static_prim_lit(p, bits):
    if p in FLOATS:
        # from_bits is const fn
        return prim_lit(p, bits)
    return prim_lit(p, bits)


# ---------------------------------------------------------------- emission

VF_MOD = r'''
#[allow(dead_code)]
pub mod vf {
    use diplomat_runtime::*;
    use std::sync::atomic::{AtomicU32, Ordering};
    use std::sync::Mutex;
    use std::collections::HashMap;
    use std::io::Write;

    static NEXT_ID: AtomicU32 = AtomicU32::new(1);
    static COUNTS: Mutex<Option<HashMap<&'static str, usize>>> = Mutex::new(None);

    pub fn log(s: String) {
        let mut line = s;
        line.push('\n');
        let out = std::io::stdout();
        let mut l = out.lock();
        let _ = l.write_all(line.as_bytes());
        let _ = l.flush();
    }
    pub fn next_id() -> u32 { NEXT_ID.fetch_add(1, Ordering::SeqCst) }
    pub fn enter(name: &'static str, args: &[String]) -> usize {
        let n = {
            let mut g = COUNTS.lock().unwrap();
            let m = g.get_or_insert_with(HashMap::new);
            let e = m.entry(name).or_insert(0);
            let n = *e; *e += 1; n
        };
        let mut s = format!("CALL {}#{}", name, n);
        for a in args { s.push(' '); s.push_str(a); }
        log(s);
        n
    }
    pub fn exhausted(name: &str) -> ! {
        log(format!("EXHAUSTED {}", name));
        std::process::abort()
    }
    pub trait Canon { fn canon(&self) -> String; }
    pub fn c<T: Canon + ?Sized>(x: &T) -> String { x.canon() }
    macro_rules! int_canon { ($($t:ty : $w:expr),*) => {$(
        impl Canon for $t { fn canon(&self) -> String { format!("{:0w$x}", *self, w = $w) } }
    )*}}
    int_canon!(u8:2, i8:2, u16:4, i16:4, u32:8, i32:8, u64:16, i64:16, usize:16, isize:16);
    impl Canon for f32 { fn canon(&self) -> String { format!("{:08x}", self.to_bits()) } }
    impl Canon for f64 { fn canon(&self) -> String { format!("{:016x}", self.to_bits()) } }
    impl Canon for bool { fn canon(&self) -> String { (if *self {"1"} else {"0"}).to_string() } }
    impl Canon for char { fn canon(&self) -> String { format!("{:08x}", *self as u32) } }
    impl Canon for () { fn canon(&self) -> String { "()".to_string() } }
    impl<T: Canon> Canon for [T] { fn canon(&self) -> String {
        let mut s = String::from("["); for (i, x) in self.iter().enumerate() { if i > 0 { s.push(','); } s.push_str(&x.canon()); } s.push(']'); s } }
    impl<T: Canon> Canon for &[T] { fn canon(&self) -> String { (**self).canon() } }
    impl<T: Canon> Canon for &mut [T] { fn canon(&self) -> String { (**self).canon() } }
    impl<T: Canon> Canon for Box<[T]> { fn canon(&self) -> String { (**self).canon() } }
    impl Canon for str { fn canon(&self) -> String { hexs(self.as_bytes()) } }
    impl Canon for &str { fn canon(&self) -> String { hexs(self.as_bytes()) } }
    impl Canon for Box<str> { fn canon(&self) -> String { hexs(self.as_bytes()) } }
    pub fn hexs(b: &[u8]) -> String { let mut s = String::from("\""); for x in b { s.push_str(&format!("{:02x}", x)); } s.push('"'); s }
    /// byte strings (DiplomatStr) are logged as strings, not as u8 lists
    pub struct Bytes<'a>(pub &'a [u8]);
    impl Canon for Bytes<'_> { fn canon(&self) -> String { hexs(self.0) } }
    impl<T: Canon> Canon for Option<T> { fn canon(&self) -> String { match self { Some(x) => format!("S({})", x.canon()), None => "N".to_string() } } }
    impl<T: Canon> Canon for DiplomatOption<T> { fn canon(&self) -> String { match self.as_ref() { Ok(x) => format!("S({})", x.canon()), Err(_) => "N".to_string() } } }
    impl<T: Canon> Canon for DiplomatSlice<'_, T> { fn canon(&self) -> String { (**self).canon() } }
    impl<T: Canon> Canon for DiplomatSliceMut<'_, T> { fn canon(&self) -> String { (**self).canon() } }
    impl Canon for DiplomatUtf8StrSlice<'_> { fn canon(&self) -> String { hexs((**self).as_bytes()) } }
    pub struct StrSliceBytes<'a>(pub &'a DiplomatStrSlice<'a>);
    pub fn strs8(v: &[DiplomatStrSlice]) -> String {
        let mut s = String::from("["); for (i, x) in v.iter().enumerate() { if i > 0 { s.push(','); } s.push_str(&hexs(&**x)); } s.push(']'); s }
    pub fn strs16(v: &[DiplomatStr16Slice]) -> String {
        let mut s = String::from("["); for (i, x) in v.iter().enumerate() { if i > 0 { s.push(','); } s.push_str(&(**x).canon()); } s.push(']'); s }
    pub fn strsu(v: &[DiplomatUtf8StrSlice]) -> String {
        let mut s = String::from("["); for (i, x) in v.iter().enumerate() { if i > 0 { s.push(','); } s.push_str(&hexs((**x).as_bytes())); } s.push(']'); s }
}
'''


VF_HEAD_WASM = r'''
#[allow(dead_code)]
pub mod vf {
    use diplomat_runtime::*;
    use alloc::{format, string::{String, ToString}, vec::Vec, boxed::Box, collections::BTreeMap};
    use core::sync::atomic::{AtomicU32, Ordering};

    static NEXT_ID: AtomicU32 = AtomicU32::new(1);
    static mut COUNTS: Option<BTreeMap<&'static str, usize>> = None;

    pub fn log(s: String) { vfsupport::log(&s); }
    pub fn next_id() -> u32 { NEXT_ID.fetch_add(1, Ordering::SeqCst) }
    pub fn enter(name: &'static str, args: &[String]) -> usize {
        let n = unsafe {
            let m = (*core::ptr::addr_of_mut!(COUNTS)).get_or_insert_with(BTreeMap::new);
            let e = m.entry(name).or_insert(0);
            let n = *e; *e += 1; n
        };
        let mut s = format!("CALL {}#{}", name, n);
        for a in args { s.push(' '); s.push_str(a); }
        log(s);
        n
    }
    pub fn exhausted(name: &str) -> ! {
        log(format!("EXHAUSTED {}", name));
        core::arch::wasm32::unreachable()
    }
'''

WASM_PRELUDE = "use alloc::{format, string::{String, ToString}, vec::Vec, boxed::Box};\n"


def vf_mod(target):
    from spec import prim_bits
    body = VF_MOD.replace("usize:16, isize:16", "usize:%d, isize:%d" % (prim_bits("usize") // 4, prim_bits("isize") // 4))
    if target != "wasm":
        return body
    tail = body[body.index("    pub trait Canon"):]
    return VF_HEAD_WASM + tail


def canon_arg_expr(prog, name, t):
    """Rust expression (String) for the canonical form of parameter `name` of type t."""
    k = t[0]
    V = "crate::vf::"
    if k in ("prim", "enum", "struct"):
        return "%sc(&%s)" % (V, name)
    if k == "oref":
        if t[4]:
            return "match &%s { Some(o) => format!(\"#{}\", o.id), None => \"N\".to_string() }" % name
        return "format!(\"#{}\", %s.id)" % name
    if k == "opt":
        inner = t[1]
        if inner[0] in ("str", "ostr") and inner[1] in ("ustr",):
            return "match &%s { Some(x) => format!(\"S({})\", %shexs(x)), None => \"N\".to_string() }" % (name, V)
        if inner[0] == "strs":
            fn = {"ustr": "strs8", "u16": "strs16", "utf8": "strsu"}[inner[1]]
            return "match &%s { Some(x) => format!(\"S({})\", %s%s(x)), None => \"N\".to_string() }" % (name, V, fn)
        return "%sc(&%s)" % (V, name)
    if k in ("slice", "oslice"):
        return "%sc(&%s)" % (V, name)
    if k in ("str", "ostr"):
        enc = t[1]
        if enc == "u16":
            return "%sc(&%s[..])" % (V, name)
        if enc == "ustr":
            return "%shexs(&%s[..])" % (V, name)
        return "%shexs(%s.as_bytes())" % (V, name)
    if k == "strs":
        return "%s%s(%s)" % (V, {"ustr": "strs8", "u16": "strs16", "utf8": "strsu"}[t[1]], name)
    if k == "cb":
        return "\"cb\".to_string()"
    if k == "tr":
        return "\"tr\".to_string()"
    if k == "write":
        return "\"w\".to_string()"
    raise ValueError(t)


def mutate_stmt(name, p):
    if p in INTS or p == "DiplomatByte":
        return "for x in %s.iter_mut() { *x = x.wrapping_add(1); }" % name
    if p in FLOATS:
        return "for x in %s.iter_mut() { *x = -*x; }" % name
    if p == "bool":
        return "for x in %s.iter_mut() { *x = !*x; }" % name
    return ""


def emit_method(prog, owner, m, bodies, indent="        "):
    out = []
    out.append(attrs_s(m.attrs, indent))
    gens = ""
    if m.lifetimes:
        parts = []
        for lt in m.lifetimes:
            bs = [b for a, b in m.bounds if a == lt]
            parts.append("'%s%s" % (lt, (": " + " + ".join("'" + b for b in bs)) if bs else ""))
        gens = "<%s>" % ", ".join(parts)
    ps = []
    if m.self_kind:
        sk = m.self_kind
        if sk[0] == "ref":
            ps.append("&%sself" % lt_s(sk[1]))
        elif sk[0] == "mut":
            ps.append("&%smut self" % lt_s(sk[1]))
        else:
            ps.append("self")
    for pn, pt in m.params:
        pa = "".join(a + " " for a in getattr(m, "param_attrs", {}).get(pn, ()))
        if pn in getattr(m, "dip_params", ()):
            ps.append("%s%s: %s" % (pa, rust_ident(pn), dip_param_ty(pt)))
            continue
        ps.append("%s%s: %s" % (pa, rust_ident(pn), rs_ty(prog, pt, lt_for_structs=(m.lifetimes[0] if m.lifetimes else "_"))))
    ret = "" if m.ret == ("unit",) else " -> " + rs_ty(prog, m.ret, lt_for_structs=(m.lifetimes[0] if m.lifetimes else "_"))
    sig = "(%s)%s" % (", ".join(ps), ret)
    if getattr(m, "self_spelling", False) and not owner.lifetimes:
        import re
        sig = re.sub(r"\b%s\b" % re.escape(owner.name), "Self", sig)
    out.append("%spub fn %s%s%s {\n" % (indent, m.name, gens, sig))
    if not bodies or m.script is None:
        if getattr(m, "raw_body", None):
            out.append(indent + "    " + m.raw_body + "\n")
        else:
            out.append("%s    unimplemented!()\n" % indent)
    else:
        out.append(emit_body(prog, owner, m, indent + "    "))
    out.append("%s}\n" % indent)
    return "".join(out)


RUST_KEYWORDS = {"as", "break", "const", "continue", "crate", "else", "enum", "extern", "false", "fn", "for", "if", "impl",
                 "in", "let", "loop", "match", "mod", "move", "mut", "pub", "ref", "return", "self", "Self", "static", "struct",
                 "super", "trait", "true", "type", "unsafe", "use", "where", "while", "async", "await", "dyn", "abstract",
                 "become", "box", "do", "final", "macro", "override", "priv", "typeof", "unsized", "virtual", "yield", "try"}


def rust_ident(n):
    return "r#" + n if n in RUST_KEYWORDS else n


def emit_body(prog, owner, m, ind):
    sc = m.script
    lines = []
    args = []
    if m.self_kind:
        if owner.kind == "opaque":
            args.append("format!(\"#{}\", self.id)")
        else:
            args.append("crate::vf::c(&self)")
    for pn, pt in m.params:
        args.append(canon_arg_expr(prog, rust_ident(pn), pt))
    for pn, pt in m.params:
        if pn in getattr(m, "dip_params", ()):
            # what the macro does for the std spelling, done by hand
            lines.append("let %s%s: %s = %s.into();" % ("mut " if pt[0] in ("oslice", "ostr") else "", rust_ident(pn), rs_ty(prog, pt, lt_for_structs=(m.lifetimes[0] if m.lifetimes else "_")), rust_ident(pn)))
    if any(pt[0] == "write" for _, pt in m.params):
        lines.append("use core::fmt::Write as _;")
    for pn, pt in m.params:
        if (pt[0] == "cb" and pt[3]) or (pt[0] == "tr" and any(mm for _, mm, _, _ in pt[2])):
            lines.append("let mut %s = %s;" % (rust_ident(pn), rust_ident(pn)))
    lines.append("let vf_n = crate::vf::enter(\"%s\", &[%s]);" % (m.abi_name, ", ".join(args)))
    # scripted side effects per call
    eff = sc.get("effects", [])
    if any(eff):
        lines.append("match vf_n {")
        for i, e in enumerate(eff):
            if not e:
                continue
            lines.append("    %d => {" % i)
            for st in e:
                lines.append("        " + st)
            lines.append("    }")
        lines.append("    _ => {}")
        lines.append("}")
    for pn, pt in m.params:
        if pt[0] == "slice" and pt[2]:
            st = mutate_stmt(rust_ident(pn), pt[1])
            if st:
                lines.append(st)
    if m.self_kind and m.self_kind[0] == "mut" and owner.kind == "opaque":
        lines.append("self.touched = self.touched.wrapping_add(1);")
    rets = sc["rets"]
    if m.ret == ("unit",):
        lines.append("if vf_n >= %d { crate::vf::exhausted(\"%s\") }" % (len(rets), m.abi_name))
    else:
        lines.append("match vf_n {")
        for i, v in enumerate(rets):
            lines.append("    %d => %s," % (i, value_expr(prog, m.ret, v)))
        lines.append("    _ => crate::vf::exhausted(\"%s\")," % m.abi_name)
        lines.append("}")
    return "".join(ind + l + "\n" for l in lines)


def emit_typedef(prog, t, bodies, ind="    "):
    out = []
    out.append(attrs_s(t.attrs, ind))
    gens = "<%s>" % ", ".join("'" + l for l in t.lifetimes) if t.lifetimes else ""          # declaration site (may carry bounds)
    lt_names = [l.split(":")[0].strip() for l in t.lifetimes]
    use_gens = "<%s>" % ", ".join("'" + l for l in lt_names) if lt_names else ""             # use site
    if t.kind == "enum":
        out.append("%spub enum %s {\n" % (ind, t.name))
        for vn, e in t.variants:
            va = "".join("%s    %s\n" % (ind, a) for a in getattr(t, "variant_attrs", {}).get(vn, []))
            out.append(va)
            out.append("%s    %s%s,\n" % (ind, vn, " = %s" % int_lit(e, getattr(t, "lit_styles", {}).get(vn)) if e is not None else ""))
        out.append("%s}\n" % ind)
    elif t.kind in ("struct", "outstruct"):
        if t.out:
            out.append("%s#[diplomat::out]\n" % ind)
        out.append("%spub struct %s%s {\n" % (ind, t.name, gens))
        for fn, ft in t.fields:
            for a in t.field_attrs.get(fn, []):
                out.append("%s    %s\n" % (ind, a))
            out.append("%s    pub %s: %s,\n" % (ind, fn, rs_ty(prog, ft, "a")))
        out.append("%s}\n" % ind)
    else:
        out.append("%s#[diplomat::opaque]\n" % ind)
        if getattr(t, "decl", "struct") == "enum" and not bodies and not t.lifetimes:
            out.append("%spub enum %s { VfA(u32), VfB }\n" % (ind, t.name))
        elif t.lifetimes:
            out.append("%spub struct %s%s { pub id: u32, pub seed: u32, pub touched: u32, pub ph: core::marker::PhantomData<(%s)> }\n" % (
                ind, t.name, gens, ", ".join("&'%s ()" % l for l in lt_names) + ","))
        elif getattr(t, "holder", None):
            out.append("%spub struct %s { pub id: u32, pub seed: u32, pub touched: u32, pub held: %s }\n" % (ind, t.name, dyn_ty(prog, t.holder)))
        else:
            out.append("%spub struct %s { pub id: u32, pub seed: u32, pub touched: u32 }\n" % (ind, t.name))
    if t.methods:
        # one impl block, or the same methods spread over several (each carries the impl-level attributes, so what they mean is unchanged)
        cuts = sorted(set(c for c in getattr(t, "impl_cuts", ()) if 0 < c < len(t.methods)))
        for lo, hi in zip([0] + cuts, cuts + [len(t.methods)]):
            for a in getattr(t, "impl_attrs", []):
                out.append("%s%s\n" % (ind, a))
            out.append("%simpl%s %s%s {\n" % (ind, gens, t.name, use_gens))
            for m in t.methods[lo:hi]:
                out.append(emit_method(prog, t, m, bodies, ind + "    "))
            out.append("%s}\n" % ind)
    return "".join(out)


def int_lit(v, style):
    """the same discriminant in another literal spelling (hex, octal, binary, digit separators)"""
    a = abs(v)
    body = {"hex": "0x%X" % a, "oct": "0o%o" % a, "bin": "0b%s" % bin(a)[2:], "under": "{:_}".format(a), "hexu": "0x%s" % "_".join(("%04x" % a)[i:i + 2] for i in (0, 2)) if a < 65536 else "0x%x" % a}.get(style, "%d" % a)
    return ("-" if v < 0 else "") + body


def dyn_ty(prog, cb):
    args = ", ".join(rs_ty(prog, a) for a in cb[1])
    ret = "" if cb[2] == ("unit",) else " -> " + rs_ty(prog, cb[2])
    return "Box<dyn %s(%s)%s>" % ("FnMut" if cb[3] else "Fn", args, ret)


def canon_impls(prog):
    """impl Canon for user structs/enums; Drop + vf_new for opaques (outside the bridge modules)."""
    out = []
    for mod in prog.modules:
        for t in mod.items:
            path = "crate::%s::%s" % (mod.name, t.name)
            gens = "<%s>" % ", ".join("'_" for _ in t.lifetimes) if t.lifetimes else ""
            if t.kind == "enum":
                out.append("impl vf::Canon for %s { fn canon(&self) -> String { format!(\"{:08x}\", *self as i32) } }\n" % path)
            elif t.kind in ("struct", "outstruct"):
                if t.out:
                    continue
                parts = []
                for fn, ft in t.fields:
                    parts.append("s.push_str(\"%s%s:\"); s.push_str(&%s);" % ("," if parts else "", fn, field_canon("self." + fn, ft)))
                out.append("impl vf::Canon for %s%s { fn canon(&self) -> String { let mut s = String::from(\"{\"); %s s.push('}'); s } }\n" % (
                    path, gens, " ".join(parts)))
            else:
                if getattr(t, "holder", None):
                    # (the callback's types are named as inside the bridge module)
                    out.append("mod vf_hold_%s { use crate::%s::*; use diplomat_runtime::*; use crate::vf; impl %s { pub fn vf_hold(seed: u32, held: %s) -> Self { let id = vf::next_id(); vf::log(format!(\"NEW %s#{}\", id)); Self { id, seed, touched: 0, held } } } }\n" % (
                        t.name.lower(), mod.name, path, dyn_ty(prog, t.holder), t.name))
                    out.append("impl Drop for %s { fn drop(&mut self) { vf::log(format!(\"DROP %s#{}\", self.id)); } }\n" % (path, t.name))
                    continue
                ph = ", ph: core::marker::PhantomData" if t.lifetimes else ""
                out.append("impl%s %s%s { pub fn vf_new(seed: u32) -> Self { let id = vf::next_id(); vf::log(format!(\"NEW %s#{}\", id)); Self { id, seed, touched: 0%s } } }\n" % (
                    gens.replace("'_", "'a") if gens else "", path, gens.replace("'_", "'a") if gens else "", t.name, ph))
                out.append("impl%s Drop for %s%s { fn drop(&mut self) { vf::log(format!(\"DROP %s#{}\", self.id)); } }\n" % (
                    gens.replace("'_", "'a") if gens else "", path, gens.replace("'_", "'a") if gens else "", t.name))
    return "".join(out)


def field_canon(expr, ft):
    k = ft[0]
    if k == "oref":
        if ft[4]:
            return "match &%s { Some(o) => format!(\"#{}\", o.id), None => \"N\".to_string() }" % expr
        return "format!(\"#{}\", %s.id)" % expr
    if k == "str" and ft[1] == "ustr":
        return "vf::hexs(&%s)" % expr
    if k == "str" and ft[1] == "u16":
        return "vf::c(&%s[..])" % expr
    return "vf::c(&%s)" % expr


def emit_traits(prog, mod):
    """`pub trait` declarations for every ("tr", ...) parameter type of the module's methods (one per trait name)."""
    out, seen = [], set()
    for t in mod.items:
        for m in t.methods:
            for _, pt in m.params:
                if pt[0] == "tr" and pt[1] not in seen:
                    seen.add(pt[1])
                    out.append("    pub trait %s {\n" % pt[1])
                    for mname, mm, margs, mret in pt[2]:
                        args = "".join(", a%d: %s" % (i, rs_ty(prog, a)) for i, a in enumerate(margs))
                        ret = "" if mret == ("unit",) else " -> " + rs_ty(prog, mret)
                        ma = getattr(prog, "trait_mattrs", {}).get((pt[1], mname))
                        if ma:
                            out.append("        %s\n" % ma)
                        out.append("        fn %s(&%sself%s)%s;\n" % (mname, "mut " if mm else "", args, ret))
                    out.append("    }\n")
    return "".join(out)


def emit_program(prog, bodies=False, crate_attrs="", target="host"):
    out = []
    out.append("#![allow(warnings)]\n")
    if target == "wasm":
        out.append("#![no_std]\nextern crate alloc;\nextern crate vfsupport;\n" + WASM_PRELUDE)
    out.append(crate_attrs)
    out.append(prog.prelude)
    for mod in prog.modules:
        if getattr(mod, "nested_in", None):
            continue          # emitted inside its parent (below)
        out.append("#[diplomat::bridge]\n")
        out.append(attrs_s(mod.attrs, ""))
        out.append("pub mod %s {\n" % mod.name)
        out.append("    use diplomat_runtime::{DiplomatStr, DiplomatStr16, DiplomatChar, DiplomatByte, DiplomatWrite, DiplomatOption, DiplomatResult, DiplomatSlice, DiplomatSliceMut, DiplomatStrSlice, DiplomatStr16Slice, DiplomatUtf8StrSlice, DiplomatOwnedSlice, DiplomatOwnedStrSlice, DiplomatOwnedStr16Slice, DiplomatOwnedUTF8StrSlice};\n")
        if target == "wasm":
            out.append("    " + WASM_PRELUDE)
        for other in getattr(mod, "uses", []):
            out.append("    use %s;\n" % other)
        for t in mod.items:
            out.append(emit_typedef(prog, t, bodies))
            out.append("\n")
        out.append(mod.extra_src)
        out.append(emit_traits(prog, mod))
        for sub in prog.modules:
            if getattr(sub, "nested_in", None) == mod.name:
                # a bridge module written inside another bridge module: the macro expands it on its own, without seeing the outer one
                out.append("    #[diplomat::bridge]\n" + attrs_s(sub.attrs, "    ") + "    pub mod %s {\n" % sub.name)
                out.append("    use diplomat_runtime::{DiplomatWrite, DiplomatOption, DiplomatResult};\n")
                for t in sub.items:
                    out.append(emit_typedef(prog, t, bodies))
                    out.append("\n")
                out.append(sub.extra_src)
                out.append("    }\n")
        out.append("}\n\n")
    if bodies:
        out.append(vf_mod(target))
        out.append(canon_impls(prog))
    out.append(prog.epilogue)
    return "".join(out)


def assign_abi_names(prog):
    """Documented scheme Type_method (no abi_rename in runtime-leg programs)."""
    for t, m in prog.methods():
        if m.abi_name is None:
            m.abi_name = "%s_%s" % (t.name, m.name)
