"""Driver for rs/rtmon: build variants (native debug/release, ASan, Miri) from the
working tree's runtime crate, run sharded, collect STAT / VIOLATION-DETAIL lines."""
import os
import re

from common import (NCPU, NIGHTLY, Inconclusive, cargo_build_crate,
                    instantiate_crate, log, pmap, repo_target, run)

_crate = None
_bins = {}


def crate():
    global _crate
    if not _crate:
        _crate = instantiate_crate("rtmon")
    return _crate


def binary(kind):
    """kind: debug | release | asan"""
    if kind in _bins:
        return _bins[kind]
    if kind == "debug":
        b = cargo_build_crate(crate(), "stable", bin_name="rtmon")
    elif kind == "release":
        b = cargo_build_crate(crate(), "stable", release=True, bin_name="rtmon")
    elif kind == "asan":
        b = cargo_build_crate(crate(), "asan", toolchain=NIGHTLY,
                              rustflags="-Zsanitizer=address -Cforce-frame-pointers=yes",
                              target="x86_64-unknown-linux-gnu", bin_name="rtmon")
    else:
        raise ValueError(kind)
    _bins[kind] = b
    return b


_miri_ready = False


def miri_cmd(args, flags=""):
    return (["cargo", "+" + NIGHTLY, "miri", "run", "--offline", "--manifest-path",
             os.path.join(crate(), "Cargo.toml"), "--target-dir", repo_target("miri"), "--"] + [str(a) for a in args],
            {"MIRIFLAGS": flags})


def miri_prepare():
    """First invocation builds; later (parallel) ones only interpret."""
    global _miri_ready
    if _miri_ready:
        return
    cmd, env = miri_cmd(["ping"])
    rc, out, err = run(cmd, env=env, timeout=1800)
    if rc != 0 or "DONE" not in out:
        raise Inconclusive("miri cannot run the harness: rc=%s\n%s" % (rc, err[-2000:]))
    _miri_ready = True


class Result:
    def __init__(self, mode, args, rc, out, err):
        self.mode, self.args, self.rc, self.out, self.err = mode, args, rc, out, err
        self.stats = {}
        for m in re.finditer(r"^STAT (\w+)=(\d+)$", out, re.M):
            self.stats[m.group(1)] = int(m.group(2))
        self.details = re.findall(r"^VIOLATION-DETAIL (.*)$", out, re.M)
        self.done = "DONE" in out

    def sanitizer_reports(self):
        """Report blocks from ASan/LSan, valgrind, Miri, glibc heap checks, Rust panics."""
        reps = []
        e = self.err
        for pat, label in [
            (r"ERROR: AddressSanitizer: ([\w-]+)", "asan"),
            (r"ERROR: LeakSanitizer: (detected memory leaks)", "lsan"),
            (r"error: Undefined Behavior: (.*)", "miri-ub"),
            (r"error: (memory leaked.*)", "miri-leak"),
            (r"== (Invalid (?:read|write|free)[^\n]*)", "valgrind"),
            (r"== (Mismatched free[^\n]*)", "valgrind"),
            (r"== (Conditional jump or move depends on uninitialised[^\n]*)", "valgrind"),
            (r"== ([\d,]+ bytes in [\d,]+ blocks are definitely lost[^\n]*)", "valgrind-leak"),
            (r"(free\(\): [^\n]*|double free or corruption[^\n]*|malloc\(\): [^\n]*|munmap_chunk\(\)[^\n]*)", "glibc"),
            (r"(panicked at [^\n]*\n[^\n]*)", "panic"),
        ]:
            for m in re.finditer(pat, e):
                reps.append("%s: %s" % (label, m.group(1).strip()[:300]))
        return reps

    def replay_payload(self):
        return {"mode": self.mode, "argv": self.args, "rc": self.rc,
                "stdout_tail": self.out[-4000:], "stderr_tail": self.err[-6000:]}


def run_native(kind, args, timeout=900, valgrind=False):
    b = binary(kind)
    cmd = [b] + [str(a) for a in args]
    env = {"ASAN_OPTIONS": "detect_leaks=1:halt_on_error=1:abort_on_error=0:detect_stack_use_after_return=0"}
    mode = kind
    if valgrind:
        cmd = ["valgrind", "-q", "--error-exitcode=97", "--leak-check=full", "--errors-for-leak-kinds=definite",
               "--show-leak-kinds=definite", "--num-callers=12"] + cmd
        mode = "valgrind-" + kind
    rc, out, err = run(cmd, env=env, timeout=timeout)
    return Result(mode, cmd, rc, out, err)


def run_miri(args, timeout=1800, flags=""):
    miri_prepare()
    cmd, env = miri_cmd(args, flags)
    rc, out, err = run(cmd, env=env, timeout=timeout)
    return Result("miri", cmd, rc, out, err)


def run_all(jobs):
    """jobs: list of (mode, args[, timeout]) where mode in debug/release/asan/valgrind/miri."""
    if any(j[0] == "miri" for j in jobs):
        miri_prepare()
    for k in {"debug", "release", "asan"} & {j[0] for j in jobs}:
        binary(k)
    if any(j[0] == "valgrind" for j in jobs):
        binary("release")

    def one(j):
        mode, args = j[0], j[1]
        to = j[2] if len(j) > 2 else 1500
        if mode == "miri":
            return run_miri(args, timeout=to)
        if mode == "valgrind":
            return run_native("release", args, timeout=to, valgrind=True)
        return run_native(mode, args, timeout=to)
    return pmap(one, jobs, workers=NCPU)


def judge(chk, results, prop):
    """Common verdict logic for rtmon results. Returns merged stats."""
    total = {}
    for r in results:
        for k, v in r.stats.items():
            total[k] = total.get(k, 0) + v
        name = "%s-%s" % (r.mode, "_".join(str(a) for a in r.args[-4:]))
        if r.rc == -999:
            chk.inconc("watchdog: %s %s" % (r.mode, " ".join(map(str, r.args[-4:]))))
            continue
        reps = r.sanitizer_reports()
        if "c12-oom" in [str(a) for a in r.args] and "ARMED" in r.out and "SURVIVED" not in r.out and not r.details:
            # the allocator refused a growth and the process ended inside that write: legitimate iff it is Rust's allocation-failure abort
            if "memory allocation of" in r.err and not [x for x in reps if not x.startswith(("panic", "miri-ub: the program aborted"))]:
                total["oom_clean_aborts"] = total.get("oom_clean_aborts", 0) + 1
                continue
            chk.violation(name, "%s: the process died inside a write whose growth the allocator refused, without the allocation-failure abort: %s" % (r.mode, (reps or [r.err[-200:]])[0]),
                          {**r.replay_payload(), "reports": reps})
            continue
        if "c12-oom" in [str(a) for a in r.args] and "SURVIVED" in r.out and not r.done and not reps and not r.details:
            chk.violation(name, "%s: a refused growth was reported as a failure and the process then died (rc=%s) before finishing: %s" % (r.mode, r.rc, r.err[-300:].replace("\n", " ")),
                          r.replay_payload())
            continue
        if r.details:
            chk.violation(name, r.details[0], {**r.replay_payload(), "details": r.details, "reports": reps})
        elif reps:
            chk.violation(name, "%s report: %s" % (r.mode, reps[0]), {**r.replay_payload(), "reports": reps})
        elif r.rc != 0 or not r.done:
            # abnormal end with no recognisable report: the harness or toolchain, not a verdict
            chk.inconc("%s %s ended rc=%s without a report: %s" % (r.mode, " ".join(map(str, r.args[-4:])), r.rc, r.err[-200:].replace("\n", " ")))
    return total
