"""Script -> C++17/20 driver that uses the generated class API the way the book describes it
(std::optional, std::string_view, diplomat::span, structs, enum wrappers, references, std::function,
unique_ptr / optional / diplomat::result / std::string returns)."""
from emit_c import C_PRIM, c_prim_lit
from spec import prim_bits

PRELUDE = r'''
#include <cstdio>
#include <cstdlib>
#include <cstring>
#include <cstdint>
#include <memory>
#include <optional>
#include <string>
#include <string_view>
#include <functional>
#include <variant>
@INCLUDES@
extern "C" void* diplomat_alloc(size_t size, size_t align);
extern "C" void diplomat_free(void* p, size_t size, size_t align);
static void px(uint64_t v, int digits) { printf("%0*llx", digits, (unsigned long long)v); }
static void pr(int8_t v) { px((uint8_t)v, 2); }
static void pr(uint8_t v) { px(v, 2); }
static void pr(int16_t v) { px((uint16_t)v, 4); }
static void pr(uint16_t v) { px(v, 4); }
static void pr(int32_t v) { px((uint32_t)v, 8); }
static void pr(uint32_t v) { px(v, 8); }
static void pr(long v) { px((uint64_t)v, 16); }
static void pr(unsigned long v) { px((uint64_t)v, 16); }
static void pr(long long v) { px((uint64_t)v, 16); }
static void pr(unsigned long long v) { px((uint64_t)v, 16); }
static void pr(float v) { uint32_t b; memcpy(&b, &v, 4); px(b, 8); }
static void pr(double v) { uint64_t b; memcpy(&b, &v, 8); px(b, 16); }
static void pr(bool v) { unsigned char b; memcpy(&b, &v, 1); if (b > 1) printf("BADBOOL(%02x)", b); else printf("%d", b); }
static void pr(char32_t v) { px((uint32_t)v, 8); }
static void pr(std::string_view s) { printf("\""); for (unsigned char c : s) printf("%02x", c); printf("\""); }
static void pr(std::u16string_view s) { printf("["); for (size_t i = 0; i < s.size(); i++) { if (i) printf(","); px((uint16_t)s[i], 4); } printf("]"); }
static float f32b(uint32_t b) { float f; memcpy(&f, &b, 4); return f; }
static double f64b(uint64_t b) { double f; memcpy(&f, &b, 8); return f; }
struct DropLog { int id; ~DropLog() { printf("CBDROP %d\n", id); } };
'''


def cpp_prim_lit(p, bits):
    if p == "f32":
        return "f32b(0x%08xu)" % (bits & 0xFFFFFFFF)
    if p == "f64":
        return "f64b(UINT64_C(0x%016x))" % (bits & 0xFFFFFFFFFFFFFFFF)
    if p == "bool":
        return "true" if bits else "false"
    w = prim_bits(p)
    return "static_cast<%s>(UINT64_C(0x%x))" % (C_PRIM[p], bits & ((1 << w) - 1))


class CppEmitter:
    def __init__(self, script):
        self.s = script
        self.prog = script.prog
        self.decls = []
        self.tmp = 0

    def fresh(self, base="t"):
        self.tmp += 1
        return "%s%d" % (base, self.tmp)

    def cpp_ty(self, t):
        k = t[0]
        if k == "prim":
            return C_PRIM[t[1]]
        if k in ("enum", "struct"):
            return t[1]
        if k == "unit":
            return "void"
        if k == "str":
            return "std::u16string_view" if t[1] == "u16" else "std::string_view"
        if k == "oref" and not t[4]:
            return ("%s&" if t[2] else "const %s&") % t[1]
        raise ValueError(t)

    # ---- arguments
    def arg(self, t, v, pre, post, pname=None):
        k = t[0]
        if k == "prim":
            return cpp_prim_lit(t[1], v)
        if k == "enum":
            en = self.prog.find(t[1])
            return "%s(%s::%s)" % (t[1], t[1], en.variants[v][0])
        if k == "struct":
            s = self.prog.find(t[1])
            return "%s{ %s }" % (t[1], ", ".join(self.arg(ft, v[fn], pre, post) for fn, ft in s.fields))
        if k == "oref":
            if t[4]:
                return "nullptr" if v is None else "o%d.get()" % v
            return "*o%d" % v
        if k == "opt":
            inner = t[1]
            ity = self.opt_inner_ty(inner)
            if v is None:
                return "std::optional<%s>(std::nullopt)" % ity
            return "std::optional<%s>(%s)" % (ity, self.arg(inner, v[1], pre, post))
        if k == "slice":
            ety = C_PRIM[t[1]]
            cty = "diplomat::span<%s%s>" % ("" if t[2] else "const ", ety)
            items = v["items"]
            if not items:
                if v["null"]:
                    return "%s()" % cty
                a = self.fresh("arr")
                pre.append("%s %s[1] = { %s };" % (ety, a, cpp_prim_lit(t[1] if t[1] != "DiplomatByte" else "u8", 0)))
                return "%s(%s, 0)" % (cty, a)
            a = self.fresh("arr")
            pre.append("%s* %s = static_cast<%s*>(malloc(%d * sizeof(%s)));" % (ety, a, ety, len(items), ety))
            for i, x in enumerate(items):
                pre.append("%s[%d] = %s;" % (a, i, cpp_prim_lit(t[1] if t[1] != "DiplomatByte" else "u8", x)))
            if t[2]:
                post.append(("mutslice", a, len(items), t, pname))
            post.append(("free", a))
            if (len(items) + len(pre)) % 3 == 0:
                # a span that is declared first and assigned later (copy assignment of the bundled C++17 span / std::span)
                sp = self.fresh("sp")
                pre.append("%s %s; %s = %s(%s, %d);" % (cty, sp, sp, cty, a, len(items)))
                return sp
            return "%s(%s, %d)" % (cty, a, len(items))
        if k == "oslice":
            ety = C_PRIM[t[1]]
            cty = "diplomat::span<%s>" % ety
            items = v["items"]
            if not items:
                return "%s()" % cty
            a = self.fresh("own")
            pre.append("%s* %s = static_cast<%s*>(diplomat_alloc(%d * sizeof(%s), alignof(%s)));" % (ety, a, ety, len(items), ety, ety))
            post.append(("owned", a, len(items), ety))
            for i, x in enumerate(items):
                pre.append("%s[%d] = %s;" % (a, i, cpp_prim_lit(t[1], x)))
            return "%s(%s, %d)" % (cty, a, len(items))
        if k in ("str", "ostr"):
            data = v["data"]
            u16 = t[1] == "u16"
            ety = "char16_t" if u16 else "char"
            cty = "std::u16string_view" if u16 else "std::string_view"
            if not data:
                if v["null"] or k == "ostr":
                    return "%s()" % cty
                a = self.fresh("arr")
                pre.append("%s %s[1] = { 0 };" % (ety, a))
                return "%s(%s, 0)" % (cty, a)
            a = self.fresh("str")
            if k == "ostr":
                pre.append("%s* %s = static_cast<%s*>(diplomat_alloc(%d * sizeof(%s), alignof(%s)));" % (ety, a, ety, len(data), ety, ety))
                post.append(("owned", a, len(data), ety))
            else:
                pre.append("%s* %s = static_cast<%s*>(malloc(%d * sizeof(%s)));" % (ety, a, ety, len(data), ety))
                post.append(("free", a))
            for i, x in enumerate(data):
                pre.append("%s[%d] = static_cast<%s>(0x%x);" % (a, i, ety, x))
            return "%s(%s, %d)" % (cty, a, len(data))
        if k == "strs":
            u16 = t[1] == "u16"
            inner = "std::u16string_view" if u16 else "std::string_view"
            ety = "char16_t" if u16 else "char"
            cty = "diplomat::span<const %s>" % inner
            strs = v["strs"]
            if not strs:
                if v["null"]:
                    return "%s()" % cty
                a = self.fresh("arr")
                pre.append("%s %s[1] = { %s() };" % (inner, a, inner))
                return "%s(%s, 0)" % (cty, a)
            a = self.fresh("strs")
            pre.append("%s* %s = new %s[%d];" % (inner, a, inner, len(strs)))
            post.append(("delete[]", a))
            for i, sdata in enumerate(strs):
                if not sdata:
                    continue
                b = self.fresh("str")
                pre.append("%s* %s = static_cast<%s*>(malloc(%d * sizeof(%s)));" % (ety, b, ety, len(sdata), ety))
                post.append(("free", b))
                for j, x in enumerate(sdata):
                    pre.append("%s[%d] = static_cast<%s>(0x%x);" % (b, j, ety, x))
                pre.append("%s[%d] = %s(%s, %d);" % (a, i, inner, b, len(sdata)))
            return "%s(%s, %d)" % (cty, a, len(strs))
        if k == "cb":
            return self.callback(t, v, pre, post)
        raise ValueError(t)

    def opt_inner_ty(self, inner):
        k = inner[0]
        if k in ("prim", "enum", "struct"):
            return self.cpp_ty(inner)
        if k == "slice":
            return "diplomat::span<%s%s>" % ("" if inner[2] else "const ", C_PRIM[inner[1]])
        if k == "oslice":
            return "diplomat::span<%s>" % C_PRIM[inner[1]]
        if k in ("str", "ostr"):
            return "std::u16string_view" if inner[1] == "u16" else "std::string_view"
        if k == "strs":
            return "diplomat::span<const %s>" % ("std::u16string_view" if inner[1] == "u16" else "std::string_view")
        raise ValueError(inner)

    def callback(self, t, v, pre, post):
        n = v["cb"]
        ret_c = "void" if t[2] == ("unit",) else self.cpp_ty(t[2])
        params = ", ".join("%s a%d" % (self.cpp_ty(a), i) for i, a in enumerate(t[1]))
        body = ["int j = (*cnt)++;", "printf(\"CB %d#%%d\", j);" % n]
        for i, a in enumerate(t[1]):
            body.append("printf(\" \");")
            body += self.print_stmts("a%d" % i, a)
        body.append("printf(\"\\n\");")
        if t[2] != ("unit",):
            body.append("switch (j) {")
            for j, (_, cret) in enumerate(v["inv"]):
                body.append("  case %d: return %s;" % (j, self.arg(t[2], cret, [], [])))
            body.append("  default: break; }")
            body.append("printf(\"CB %d called too often\\n\"); abort();" % n)
        f = self.fresh("fn")
        # the invocation counter is the callable's own by-value state: Rust must keep calling the one std::function it was given
        # (a glue layer that copies the callable per call would restart at #0); the drop log rides along in a shared_ptr
        pre.append("std::shared_ptr<DropLog> %s_log(new DropLog{%d});" % (f, n))
        sig = "%s(%s)" % (ret_c, ", ".join(self.cpp_ty(a) for a in t[1]))
        pre.append("std::function<%s> %s = [own_cnt = int(0), lg = %s_log](%s) mutable -> %s {\n      int* cnt = &own_cnt;\n      %s\n    };" % (sig, f, f, params, ret_c, "\n      ".join(body)))
        pre.append("%s_log.reset();" % f)
        return "std::move(%s)" % f

    # ---- printing
    def print_stmts(self, e, t, adopt=None, retv=None):
        k = t[0]
        if k == "prim":
            return ["pr(static_cast<%s>(%s));" % (C_PRIM[t[1]], e)]
        if k == "enum":
            return ["pr(static_cast<int32_t>(%s.AsFFI()));" % e]
        if k == "struct":
            s = self.prog.find(t[1])
            out = ["printf(\"{\");"]
            for i, (fn, ft) in enumerate(s.fields):
                out.append("printf(\"%s%s:\");" % ("," if i else "", fn))
                out += self.print_stmts("%s.%s" % (e, fn), ft, adopt, retv[fn] if retv is not None else None)
            out.append("printf(\"}\");")
            return out
        if k == "oref":
            if t[4]:
                return ["if (%s == nullptr) printf(\"N\"); else printf(\"#%%u\", (unsigned)%s->vf_id());" % (e, e)]
            return ["printf(\"#%%u\", (unsigned)%s.vf_id());" % e]
        if k == "obox":
            out = ["if (!%s) printf(\"N\"); else printf(\"#%%u\", (unsigned)%s->vf_id());" % (e, e)]
            if adopt is not None and retv is not None:
                out.append("o%d = std::move(%s);" % (retv["h"], e))
            return out
        if k == "opt":
            inner = t[1]
            if inner == ("unit",):
                return ["if (%s.has_value()) printf(\"S(())\"); else printf(\"N\");" % e]
            return (["if (%s.has_value()) { printf(\"S(\");" % e] + self.print_stmts("(*%s)" % e, inner, adopt, retv[1] if retv else None)
                    + ["printf(\")\"); } else printf(\"N\");"])
        if k in ("slice", "oslice"):
            return ["printf(\"[\"); for (size_t i_ = 0; i_ < %s.size(); i_++) { if (i_) printf(\",\"); pr(static_cast<%s>(%s.data()[i_])); } printf(\"]\");" % (e, C_PRIM[t[1]], e)]
        if k in ("str", "ostr"):
            return ["pr(%s);" % e]
        if k == "ordering":
            return ["pr(static_cast<int8_t>(%s));" % e]
        raise ValueError(t)

    def print_ret(self, e, t, retv, string_ok=False):
        """statements printing the return value `e` (an lvalue) of return type t"""
        k = t[0]
        if k == "result":
            ok_t, err_t = t[1], t[2]
            okv = retv[1] if retv[0] == "ok" else None
            errv = retv[1] if retv[0] == "err" else None
            out = ["if (%s.is_ok()) { printf(\"O(\");" % e]
            if string_ok:
                out += ["{ auto v_ = std::move(%s).ok(); pr(std::string_view(*v_)); }" % e]
            elif ok_t == ("unit",):
                out += ["printf(\"()\");"]
            else:
                out += ["{ auto v_ = std::move(%s).ok();" % e] + self.print_stmts(self.unwrap("(*v_)", ok_t), ok_t, True, okv) + ["}"]
            out += ["printf(\")\"); } else { printf(\"E(\");"]
            if err_t == ("unit",):
                out += ["printf(\"()\");"]
            else:
                out += ["{ auto v_ = std::move(%s).err();" % e] + self.print_stmts(self.unwrap("(*v_)", err_t), err_t, True, errv) + ["}"]
            out += ["printf(\")\"); }"]
            return out
        if k == "opt" and t[1][0] in ("oref",):
            return self.print_stmts(e, t[1], True, retv)
        return self.print_stmts(e, t, True, retv)

    def unwrap(self, e, t):
        # diplomat::result<T&, E>::ok() yields optional<reference_wrapper<T>>
        if t[0] == "oref" and not t[4]:
            return "%s.get()" % e
        return e

    # ---- steps
    def step_code(self, st):
        if st["kind"] == "destroy":
            o = st["obj"]
            return ["o%d.reset();" % o.h]
        m, owner, args, n = st["m"], st["owner"], st["args"], st["n"]
        pre, post = [], []
        cargs = []
        has_write = False
        validated = False
        for pn, pt in m.params:
            if pt[0] == "write":
                has_write = True
                continue
            if pt[0] in ("str", "ostr") and pt[1] == "utf8":
                validated = True
            cargs.append(self.arg(pt, args[pn], pre, post, pn))
        if m.self_kind:
            if owner.kind == "opaque":
                recv = "o%d->" % args["self"]
            else:
                recv = "%s." % self.arg((owner.kind, owner.name), args["self"], pre, post)
        else:
            recv = "%s::" % owner.name
        # method names that collide with keywords get a trailing underscore in C++
        call = "%s%s(%s)" % (recv, m.name, ", ".join(cargs))
        label = "%s#%s" % (m.abi_name, "-" if st.get("rejected") else n)
        out = ["{ /* %s */" % label] + ["  " + p for p in pre]
        ret_t = m.ret
        string_ret = has_write
        is_void = (ret_t == ("unit",)) and not string_ret and not validated
        if is_void:
            out.append("  %s;" % call)
            out.append("  printf(\"RET %s ()\\n\");" % label)
        else:
            out.append("  auto&& r_ = %s;" % call)
            out.append("  printf(\"RET %s \");" % label)
            body = []
            inner = "r_"
            if validated:
                body.append("if (r_.is_err()) { printf(\"UTF8ERR\"); } else {")
                if ret_t == ("unit",) and not string_ret:
                    body.append("printf(\"()\");")
                else:
                    body.append("auto v0_ = std::move(r_).ok();")
                    inner = self.unwrap("(*v0_)", ret_t)
            if not (validated and ret_t == ("unit",) and not string_ret):
                if st.get("rejected"):
                    body.append("printf(\"NOT-REJECTED\");")
                elif string_ret and ret_t == ("unit",):
                    body.append("pr(std::string_view(%s));" % inner)
                elif string_ret and ret_t[0] == "opt":
                    body.append("if (%s.has_value()) { printf(\"S(\"); pr(std::string_view(*%s)); printf(\")\"); } else printf(\"N\");" % (inner, inner))
                elif string_ret:
                    body += self.print_ret(inner, ret_t, st["ret"], string_ok=True)
                else:
                    body += self.print_ret(inner, ret_t, st["ret"])
            if validated:
                body.append("}")
            out += ["  " + b for b in body]
            out.append("  printf(\"\\n\");")
        muts = {p[4]: p for p in post if p[0] == "mutslice"}
        for pn, pt in m.params:
            if pt[0] == "slice" and pt[2] and not st.get("rejected"):
                if pn in muts:
                    _, a, ln, t, pname = muts[pn]
                    out.append("  printf(\"MUT %s [\"); for (size_t i_ = 0; i_ < %d; i_++) { if (i_) printf(\",\"); pr(static_cast<%s>(%s[i_])); } printf(\"]\\n\");" % (pname, ln, C_PRIM[t[1]], a))
                else:
                    out.append("  printf(\"MUT %s []\\n\");" % pn)
        for p in post:
            if p[0] == "free":
                out.append("  free(%s);" % p[1])
            elif p[0] == "delete[]":
                out.append("  delete[] %s;" % p[1])
            elif p[0] == "owned" and st.get("rejected"):
                # Rust never saw the call: the buffers it would have taken over are still the caller's
                out.append("  diplomat_free(%s, %d * sizeof(%s), alignof(%s));" % (p[1], p[2], p[3], p[3]))
        out.append("}")
        return out

    def emit(self):
        body = []
        for st in self.s.steps:
            body += self.step_code(st)
        objs = "".join("  std::unique_ptr<%s> o%d;\n" % (o.ty, o.h) for o in self.s.objs)
        includes = "".join('#include "%s.hpp"\n' % t.name for t in self.prog.types())
        src = PRELUDE.replace("@INCLUDES@", includes)
        src += "int main() {\n  setvbuf(stdout, NULL, _IONBF, 0);\n" + objs
        src += "".join("  " + l + "\n" for l in body)
        src += "  printf(\"END\\n\");\n  return 0;\n}\n"
        return src
