"""C05 — the lowering gate accepts exactly the documented FFI-safe API shapes.
Valid modules from the grammar generator must be accepted for every backend profile; every single-fault
mutant (one operator per documented rule, several placements) must be rejected with the offending
type/method as the error's context."""
import copy
import os
import random

import common
import emit_rust
import spec
import toolrun
import tooltier
from common import Check, pmap


def raw(t):
    return ("raw", t)


def pick_method(prog, rng, pred=lambda t, m: True):
    c = [(t, m) for t, m in prog.methods() if m.name != "make" and pred(t, m)]
    return rng.choice(c) if c else (None, None)


def first(prog, kind, pred=lambda t: True):
    for t in prog.types():
        if t.kind == kind and pred(t):
            return t
    return None


def add_method(owner, name, self_kind, params, ret, lifetimes=None, bounds=None):
    m = spec.Method(name, self_kind, params, ret, lifetimes=lifetimes, bounds=bounds)
    m.owner = owner
    owner.methods.append(m)
    return m


# Each operator: (prog, rng) -> (context type name, context method name or None, note) or None when not applicable.
def op_owned_opaque_param(p, r):
    op = first(p, "opaque")
    t, m = pick_method(p, r)
    if not op or not m:
        return None
    m.params.insert(r.randint(0, len(m.params) - (1 if m.params and m.params[-1][1] == ("write",) else 0)), ("bad", raw("Box<%s>" % op.name)))
    return t.name, m.name, "owned opaque in a parameter"


def op_opaque_by_value_param(p, r):
    op = first(p, "opaque")
    t, m = pick_method(p, r)
    if not op or not m:
        return None
    m.params.insert(0, ("bad", raw(op.name)))
    return t.name, m.name, "opaque passed by value"


def op_opaque_by_value_return(p, r):
    op = first(p, "opaque")
    if not op:
        return None
    m = add_method(op, "bad_ret", ("ref", None), [], raw(op.name))
    return op.name, m.name, "opaque returned by value"


def op_opaque_by_value_field(p, r):
    op, st = first(p, "opaque"), first(p, "struct")
    if not op or not st:
        return None
    st.fields.insert(r.randint(0, len(st.fields)), ("bad", raw(op.name)))
    return st.name, None, "opaque by value in a struct field"


def op_opaque_by_value_self(p, r):
    op = first(p, "opaque")
    if not op:
        return None
    m = add_method(op, "bad_self", ("val",), [("x", ("prim", "u8"))], ("unit",))
    return op.name, m.name, "opaque by value as self"


def op_outstruct_param(p, r):
    os_ = first(p, "outstruct")
    t, m = pick_method(p, r)
    if not os_ or not m:
        return None
    m.params.insert(0, ("bad", raw(os_.name)))
    return t.name, m.name, "out-struct as a parameter"


def op_outstruct_param_with_twin(p, r):
    """the same fault while another bridge module declares a *plain* struct with the out-struct's identifier (renamed there, so that backends
    can tell the two apart): which of the two a name means is decided per module (seed C05-i: the lookup tables keyed by bare name)"""
    os_ = first(p, "outstruct", lambda t: not t.lifetimes)
    t, m = pick_method(p, r)
    if not os_ or not m or t not in p.modules[0].items or os_ not in p.modules[0].items:
        return None
    twin = spec.Struct(os_.name, [("q", ("prim", "u16")), ("r", ("prim", "u8"))])
    twin.attrs.append('#[diplomat::attr(*, rename = "Twin%s")]' % os_.name)
    mod = spec.Module(r.choice(["aa_twin", "zz_twin"]))
    mod.attrs.append('#[diplomat::abi_rename = "twin_{0}"]')
    mod.items = [twin]
    p.modules.append(mod)
    if r.random() < 0.5:
        m.params.insert(0, ("bad", raw(os_.name)))
        return t.name, m.name, "out-struct as a parameter (a plain struct of the same name lives in another module)"
    m2 = add_method(os_, "bad_self", ("val",), [], ("prim", "u8"))
    return os_.name, m2.name, "method on an out-struct (a plain struct of the same name lives in another module)"


def op_outstruct_self(p, r):
    os_ = first(p, "outstruct")
    if not os_:
        return None
    m = add_method(os_, "bad_self", ("val",), [], ("prim", "u8"))
    return os_.name, m.name, "out-struct as self"


def op_ref_struct_param(p, r):
    st = first(p, "struct", lambda t: not t.lifetimes)
    t, m = pick_method(p, r)
    if not st or not m:
        return None
    m.params.insert(0, ("bad", raw("&%s" % st.name)))
    return t.name, m.name, "reference to a struct"


def op_ref_struct_self(p, r):
    st = first(p, "struct", lambda t: not t.lifetimes)
    if not st:
        return None
    m = add_method(st, "bad_self", ("ref", None), [], ("prim", "u8"))
    return st.name, m.name, "struct behind &self"


def op_box_struct_return(p, r):
    st = first(p, "struct", lambda t: not t.lifetimes)
    op = first(p, "opaque")
    if not st or not op:
        return None
    m = add_method(op, "bad_ret", ("ref", None), [], raw("Box<%s>" % st.name))
    return op.name, m.name, "boxed struct"


def op_ref_prim_param(p, r):
    t, m = pick_method(p, r)
    if not m:
        return None
    m.params.insert(0, ("bad", raw("&u8")))
    return t.name, m.name, "reference to a primitive"


def op_result_param(p, r):
    t, m = pick_method(p, r)
    if not m:
        return None
    m.params.insert(0, ("bad", raw("Result<u8, u8>")))
    return t.name, m.name, "Result as a parameter"


def op_result_nested_return(p, r):
    op = first(p, "opaque")
    if not op:
        return None
    m = add_method(op, "bad_ret", ("ref", None), [], raw(r.choice(["Option<Result<u8, u8>>", "Result<Result<u8, u8>, u8>", "Result<u8, Result<u8, ()>>"])))
    return op.name, m.name, "nested Result"


def op_result_field(p, r):
    st = first(p, "outstruct") or first(p, "struct")
    if not st:
        return None
    st.fields.append(("bad", raw("DiplomatResult<u8, u8>")))
    return st.name, None, "Result in a struct field"


def struct_or_outstruct(p, r):
    """field rules hold for ordinary structs and for #[diplomat::out] structs alike"""
    c = [x for x in (first(p, "struct"), first(p, "outstruct")) if x]
    return r.choice(c) if c else None


def op_std_option_prim_field(p, r):
    st = struct_or_outstruct(p, r)
    if not st:
        return None
    st.fields.insert(0, ("bad", raw("Option<%s>" % r.choice(["u8", "f64", "bool", "i32"]))))
    return st.name, None, "std Option<primitive> in a struct field"


def op_std_option_enum_field(p, r):
    st, en = struct_or_outstruct(p, r), first(p, "enum")
    if not st or not en:
        return None
    st.fields.append(("bad", raw("Option<%s>" % en.name)))
    return st.name, None, "std Option<enum> in a struct field"


def op_std_option_struct_field(p, r):
    sts = [t for t in p.types() if t.kind == "struct" and not t.lifetimes]
    if len(sts) < 2:
        return None
    host = r.choice([sts[1]] + [t for t in p.types() if t.kind == "outstruct"][:1])
    host.fields.append(("bad", raw("Option<%s>" % sts[0].name)))
    return host.name, None, "std Option<struct> in a struct field"


def op_diplomat_option_ref(p, r):
    op = first(p, "opaque")
    t, m = pick_method(p, r)
    if not op or not m:
        return None
    m.params.insert(0, ("bad", raw("DiplomatOption<&%s>" % op.name)))
    return t.name, m.name, "DiplomatOption<&T>"


def op_option_box_param(p, r):
    op = first(p, "opaque")
    t, m = pick_method(p, r)
    if not op or not m:
        return None
    m.params.insert(0, ("bad", raw("Option<Box<%s>>" % op.name)))
    return t.name, m.name, "Option<Box<T>> in an input"


def op_option_opaque_value(p, r):
    op = first(p, "opaque")
    if not op:
        return None
    m = add_method(op, "bad_ret", ("ref", None), [], raw("Option<%s>" % op.name))
    return op.name, m.name, "Option<Opaque> by value"


def op_write_not_last(p, r):
    op = first(p, "opaque")
    if not op:
        return None
    m = add_method(op, "bad_w", ("ref", None), [("w", ("write",)), ("x", ("prim", "u8"))], ("unit",))
    return op.name, m.name, "DiplomatWrite not last"


def op_write_by_value_return(p, r):
    op = first(p, "opaque")
    if not op:
        return None
    m = add_method(op, "bad_w", ("ref", None), [], raw("DiplomatWrite"))
    return op.name, m.name, "DiplomatWrite in return position"


def op_zst_struct_arg(p, r):
    op = first(p, "opaque")
    if not op:
        return None
    z = spec.Struct("ZstBad", [])
    p.modules[0].items.append(z)
    m = add_method(op, "bad_zst", ("ref", None), [("z", ("struct", "ZstBad"))], ("unit",))
    return op.name, m.name, "zero-sized struct argument"


def op_zst_return(p, r):
    op = first(p, "opaque")
    if not op:
        return None
    z = spec.Struct("ZstBad", [])
    p.modules[0].items.append(z)
    m = add_method(op, "bad_zst", ("ref", None), [], ("struct", "ZstBad"))
    return op.name, m.name, "zero-sized struct returned outside Result/Option"


def op_zst_nested_input(p, r):
    """a zero-sized struct that reaches Rust as an input without being the bare type of a parameter (seed C05-g: the rule checked for
    top-level parameters only): inside an Option in either spelling, as a field of an argument struct, as what a callback or a trait
    method hands back"""
    op = first(p, "opaque")
    if not op:
        return None
    z = spec.Struct("ZstBad", [])
    p.modules[0].items.append(z)
    v = r.randrange(6)
    if v == 0:
        m = add_method(op, "bad_zst", ("ref", None), [("x", ("prim", "u8")), ("z", raw("Option<ZstBad>"))], ("unit",))
        return op.name, m.name, "zero-sized struct inside an Option argument"
    if v == 1:
        m = add_method(op, "bad_zst", None, [("z", raw("DiplomatOption<ZstBad>"))], ("prim", "u8"))
        return op.name, m.name, "zero-sized struct inside a DiplomatOption argument"
    if v in (2, 3):
        st = first(p, "struct", lambda t: not t.lifetimes and t.name != "ZstBad")
        if not st:
            return None
        st.fields.insert(r.randrange(len(st.fields) + 1), ("bad", raw("ZstBad") if v == 2 else raw("DiplomatOption<ZstBad>")))
        return st.name, None, "zero-sized struct as a field of an argument struct"
    if v == 4:
        m = add_method(op, "bad_zst", ("ref", None), [("f", raw("impl Fn(u8) -> ZstBad"))], ("unit",))
        return op.name, m.name, "callback returning a zero-sized struct"
    return trait_fault(p, r, bad_ret="ZstBad", what="trait method returning a zero-sized struct")


def op_missing_bound_self_ref(p, r):
    """`&'a Self` on `impl<'b> T<'b>` is `&'a T<'b>`: the bound 'b: 'a it implies has to be spelled out on the method like for the named
    spelling (seeds C04-h / C05-j: the AST inserts the implied bound for named types only, the validator was the only guard for `Self`)"""
    mod = p.modules[0]
    form = r.randrange(3)
    sig = ["pub fn same_as<'a>(&self, other: &'a Self) -> u8", "pub fn pick<'a>(&self, other: Option<&'a Self>) -> u8", "pub fn me<'a>(other: &'a Self, n: u8) -> &'a Self"][form]
    mod.extra_src += "    #[diplomat::opaque]\n    pub struct VfLtOp<'b>(pub &'b u8);\n    impl<'b> VfLtOp<'b> {\n        %s { unimplemented!() }\n    }\n" % sig
    return "VfLtOp", ["same_as", "pick", "me"][form], "&'a Self on a lifetime-carrying opaque without the implied bound 'b: 'a"


def op_elided_lifetime_return(p, r):
    op = first(p, "opaque")
    if not op:
        return None
    m = add_method(op, "bad_elided", ("ref", None), [("x", ("prim", "u8"))], raw(r.choice(["&%s" % op.name, "Option<&%s>" % op.name, "&[u8]", "&str", "Result<&%s, u8>" % op.name, "Result<u8, &%s>" % op.name,
                                                                                       "Result<(), &%s>" % op.name, "Result<u32, Option<&%s>>" % op.name])))
    return op.name, m.name, "elided lifetime in the return type"


def op_missing_opaque_def_bound(p, r):
    op = first(p, "opaque")
    if not op:
        return None
    lt = spec.Opaque("LtOp", lifetimes=["x", "y: 'x"])
    p.modules[0].items.append(lt)
    if r.random() < 0.5:
        m = add_method(op, "bad_bound", ("ref", None), [("v", raw("&LtOp<'a, 'b>"))], ("unit",), lifetimes=["a", "b"])
    else:
        m = add_method(op, "bad_bound", ("ref", "a"), [], raw(r.choice(["Box<LtOp<'a, 'b>>", "Option<Box<LtOp<'a, 'b>>>", "Result<Box<LtOp<'a, 'b>>, ()>", "Result<(), Box<LtOp<'a, 'b>>>",
                                                                            "Result<u32, Box<LtOp<'a, 'b>>>", "Result<Box<LtOp<'a, 'b>>, u8>"])), lifetimes=["a", "b"])
    return op.name, m.name, "missing bound implied by the opaque's definition ('y: 'x)"


def op_missing_struct_bound(p, r):
    op = first(p, "opaque")
    if not op:
        return None
    st = spec.Struct("BoundedSt", [("p", ("slice", "u8", False, "x", "dip")), ("q", ("slice", "u16", False, "y", "dip"))], lifetimes=["x", "y: 'x"])
    p.modules[0].items.append(st)
    m = add_method(op, "bad_bound", None, [("v", raw("BoundedSt<'a, 'b>"))], ("prim", "u8"), lifetimes=["a", "b"])
    return op.name, m.name, "missing bound implied by the struct definition"


def op_missing_bound_beside_static(p, r):
    """the same rule with unrelated lifetime slots around the bounded pair: a `'static` (or another free lifetime) in an earlier or later slot
    must not end the check"""
    op = first(p, "opaque")
    if not op:
        return None
    if r.random() < 0.5:
        p.modules[0].items.append(spec.Opaque("LtOp3", lifetimes=["s", "x", "y: 'x"]))
        use = "LtOp3<'static, 'a, 'b>" if r.random() < 0.7 else "LtOp3<'c, 'a, 'b>"
    else:
        p.modules[0].items.append(spec.Opaque("LtOp3", lifetimes=["x", "y: 'x", "s"]))
        use = "LtOp3<'a, 'b, 'static>" if r.random() < 0.7 else "LtOp3<'a, 'b, 'c>"
    lts = ["a", "b"] + (["c"] if "'c" in use else [])
    if r.random() < 0.6:
        m = add_method(op, "bad_bound3", ("ref", None), [("v", raw("&" + use))], ("unit",), lifetimes=lts)
    else:
        m = add_method(op, "bad_bound3", ("ref", "a"), [], raw("Box<%s>" % use), lifetimes=lts)
    return op.name, m.name, "missing bound implied by the opaque's definition, next to an unrelated ('static) lifetime slot"


def op_ordering_param(p, r):
    t, m = pick_method(p, r)
    if not m:
        return None
    m.params.insert(0, ("bad", raw("core::cmp::Ordering")))
    return t.name, m.name, "cmp::Ordering as a parameter"


def op_unit_param(p, r):
    t, m = pick_method(p, r)
    if not m:
        return None
    m.params.insert(0, ("bad", raw("()")))
    return t.name, m.name, "unit parameter"


def op_owned_slice_return(p, r):
    op = first(p, "opaque")
    if not op:
        return None
    m = add_method(op, "bad_ret", ("ref", None), [], raw(r.choice(["Box<[u8]>", "Box<str>", "Box<DiplomatStr16>", "Option<Box<[u16]>>"])))
    return op.name, m.name, "owned slice returned"


def op_strs_return(p, r):
    op = first(p, "opaque")
    if not op:
        return None
    m = add_method(op, "bad_ret", ("ref", "a"), [], raw("&'a [DiplomatStrSlice]"), lifetimes=["a"])
    return op.name, m.name, "slice of strings returned"


def op_callback_return(p, r):
    op = first(p, "opaque")
    if not op:
        return None
    m = add_method(op, "bad_ret", ("ref", None), [], raw("impl Fn(u8) -> u8"))
    return op.name, m.name, "callback in return position"


def op_ordering_field(p, r):
    st = struct_or_outstruct(p, r)
    if not st:
        return None
    st.fields.append(("bad", raw("core::cmp::Ordering")))
    return st.name, None, "cmp::Ordering in a struct field"


def op_unit_field(p, r):
    st = struct_or_outstruct(p, r)
    if not st:
        return None
    st.fields.insert(0, ("bad", raw("()")))
    return st.name, None, "unit type in a struct field"


def op_write_field(p, r):
    st = first(p, "struct")
    if not st:
        return None
    st.fields.append(("bad", raw("Box<DiplomatWrite>")))
    return st.name, None, "DiplomatWrite inside a struct"


def op_option_result_return(p, r):
    op = first(p, "opaque")
    if not op:
        return None
    m = add_method(op, "bad_ret", ("ref", None), [], raw("Option<Result<u8, ()>>"))
    return op.name, m.name, "Result inside Option in return position"


def op_result_in_result(p, r):
    op = first(p, "opaque")
    if not op:
        return None
    m = add_method(op, "bad_ret", ("ref", None), [], raw("Result<Result<u8, ()>, ()>"))
    return op.name, m.name, "Result as the Ok arm of a Result"


def trait_fault(p, r, bad_arg=None, bad_ret=None, what=""):
    """A trait whose one method breaks a rule, consumed through `impl Trait` (only where the backend supports traits at all:
    elsewhere the consuming method is what lowering rejects). The error must name the trait and its method."""
    import profiles
    if not profiles.support(getattr(p, "backend", "c")).get("traits"):
        return None
    op = first(p, "opaque", lambda t: not t.lifetimes)
    if not op:
        return None
    mod = [m for m in p.modules if op in m.items][0]
    mod.extra_src += "    pub trait VfBadTr {\n        fn good(&self, x: u8) -> u8;\n        fn bad(&self%s)%s;\n    }\n" % (
        (", a: " + bad_arg) if bad_arg else "", (" -> " + bad_ret) if bad_ret else "")
    add_method(op, "use_bad_tr", r.choice([("ref", None), None]), [("t", raw("impl VfBadTr"))], ("unit",))
    return "VfBadTr", "bad", what


def op_trait_ref_struct_arg(p, r):
    st = first(p, "struct", lambda t: not t.lifetimes)
    return trait_fault(p, r, bad_arg="&%s" % st.name, what="trait method taking a reference to a struct") if st else None


def op_trait_opaque_by_value_arg(p, r):
    # (Box<Opaque> is legal here: Rust hands the value *to* foreign code, so trait-method arguments are in output position)
    op = first(p, "opaque", lambda t: not t.lifetimes)
    return trait_fault(p, r, bad_arg=op.name, what="trait method taking an opaque by value") if op else None


def op_trait_result_arg(p, r):
    return trait_fault(p, r, bad_arg="Result<u8, u8>", what="trait method taking a Result")


def op_trait_opaque_by_value_return(p, r):
    op = first(p, "opaque", lambda t: not t.lifetimes)
    return trait_fault(p, r, bad_ret=op.name, what="trait method returning an opaque by value") if op else None


OPERATORS = [op_trait_ref_struct_arg, op_trait_opaque_by_value_arg, op_trait_result_arg, op_trait_opaque_by_value_return, op_missing_bound_beside_static, op_ordering_field, op_unit_field, op_write_field, op_option_result_return, op_result_in_result, op_owned_opaque_param, op_opaque_by_value_param, op_opaque_by_value_return, op_opaque_by_value_field, op_opaque_by_value_self,
             op_outstruct_param, op_outstruct_param_with_twin, op_outstruct_self, op_ref_struct_param, op_ref_struct_self, op_box_struct_return, op_ref_prim_param,
             op_result_param, op_result_nested_return, op_result_field, op_std_option_prim_field, op_std_option_enum_field,
             op_std_option_struct_field, op_diplomat_option_ref, op_option_box_param, op_option_opaque_value, op_write_not_last,
             op_write_by_value_return, op_missing_bound_self_ref, op_zst_struct_arg, op_zst_nested_input, op_zst_return, op_elided_lifetime_return, op_missing_opaque_def_bound,
             op_missing_struct_bound, op_ordering_param, op_unit_param, op_owned_slice_return, op_strs_return, op_callback_return]

# features a backend's profile does not support: the same module is valid elsewhere and must be rejected here
PROFILE_FAULTS = [
    ("option", lambda op: ("x", raw("Option<u8>")), "Option<primitive> where the backend has no option support"),
    ("callbacks", lambda op: ("f", raw("impl Fn(u8) -> u8")), "callback where the backend has no callback support"),
    ("static_slices", lambda op: None, "'static slice where the backend has no static-slice support"),
    ("traits_are_send", lambda op: None, "trait with a Send supertrait where the backend cannot honour it"),
    ("traits_are_sync", lambda op: None, "trait with a Sync supertrait (alone) where the backend cannot honour it"),
]


def base_program(backend, seed, i):
    # large enough that every operator finds its raw material (opaque, two plain structs, out-struct, enum)
    for attempt in range(20):
        prog = tooltier.backend_program(backend, seed, i, avoid_known=True, size="small", salt="c05/%d" % attempt,
                                        extra_profile=dict(out_structs=True))
        kinds = [t.kind for t in prog.types()]
        if kinds.count("struct") >= 2 and "outstruct" in kinds and "enum" in kinds and "opaque" in kinds and \
                any(not t.lifetimes for t in prog.types() if t.kind == "struct"):
            break
    prog.backend = backend
    return prog


def main(tier, seed):
    chk = Check("C05", tier, seed, "fault_enumeration")
    thorough = tier == "thorough"
    common.build_tool()
    nvalid = 400 if thorough else 40
    placements = 16 if thorough else 6
    jobs = []
    for b in toolrun.BACKENDS:
        for i in range(nvalid):
            jobs.append(("valid", b, i, None, 0))
        for oi, op in enumerate(OPERATORS):
            for pl in range(placements):
                jobs.append(("mutant", b, oi * 100 + pl, op, pl))
        for pl in range(placements):
            for fi in range(len(PROFILE_FAULTS)):
                jobs.append(("profile", b, fi * 100 + pl, fi, pl))

    def one(job):
        kind, b, i, op, pl = job
        d = toolrun.fresh_dir(toolrun.workdir("c05", "%s_%s_%d" % (kind, b, i)))
        rng = random.Random("c05/%s/%s/%s/%s" % (seed, kind, b, i))
        expect_ctx = None
        note = ""
        if kind == "valid":
            prog = tooltier.backend_program(b, seed, i, avoid_known=True, size="small", salt="c05v", extra_profile=dict(out_structs=True))
        else:
            prog = base_program(b, seed, pl * 7 + (i // 100))
            if kind == "mutant":
                r = op(prog, rng)
                if r is None:
                    return dict(job=job, status="n/a")
                expect_ctx, note = (r[0], r[1]), r[2]
            else:
                flag, mk, note = PROFILE_FAULTS[op]
                import profiles
                if profiles.support(b)[flag]:
                    return dict(job=job, status="n/a")
                opq = first(prog, "opaque")
                if flag in ("traits_are_send", "traits_are_sync"):
                    marker = "Send" if flag == "traits_are_send" else "Sync"
                    mod = [m_ for m_ in prog.modules if opq in m_.items][0]
                    mod.extra_src += "    pub trait VfMark: %s {\n        fn poke(&self, x: u8) -> u8;\n    }\n" % rng.choice([marker, "std::marker::" + marker, "core::marker::" + marker])
                    if profiles.support(b).get("traits") and rng.random() < 0.5:
                        add_method(opq, "use_mark", None, [("t", raw("impl VfMark"))], ("unit",))
                    emit_rust.assign_abi_names(prog)
                    src, cfg = tooltier.write_program(prog, d, tooltier.STD_CONFIG[b])
                    rc, o, e = toolrun.run_tool(b, src, os.path.join(d, "out"), config_file=cfg)
                    k, det = toolrun.classify_tool(rc, e)
                    return dict(job=job, status="ran", outcome=k, det=det, src=src, expect_ctx=("VfMark", None), note=note, stderr=e[-1200:], sigs=[])
                if flag == "static_slices":
                    m = add_method(opq, "bad_feature", ("ref", None), [("x", raw(rng.choice(["&'static [u8]", "&'static str", "&'static DiplomatStr16", "&'static [f64]", "Option<&'static [u8]>", "Option<&'static str>",
                                                                                            "Option<&'static DiplomatStr>", "Option<&'static [i32]>"])))], ("unit",))
                else:
                    m = add_method(opq, "bad_feature", ("ref", None), [mk(opq)], ("unit",))
                expect_ctx = (opq.name, m.name)
        emit_rust.assign_abi_names(prog)
        src, cfg = tooltier.write_program(prog, d, tooltier.STD_CONFIG[b])
        rc, o, e = toolrun.run_tool(b, src, os.path.join(d, "out"), config_file=cfg)
        k, det = toolrun.classify_tool(rc, e)
        return dict(job=job, status="ran", outcome=k, det=det, src=src, expect_ctx=expect_ctx, note=note, stderr=e[-1200:],
                    sigs=[spec.method_sig(t, m) for t, m in prog.methods()] if kind == "valid" else [])
    results = pmap(one, jobs)
    counts = {}
    distinct = set()
    panics = set()
    for r in results:
        kind, b, i, op, pl = r["job"]
        if r["status"] != "ran":
            counts["not_applicable"] = counts.get("not_applicable", 0) + 1
            continue
        k = r["outcome"]
        counts["%s:%s" % (kind, k)] = counts.get("%s:%s" % (kind, k), 0) + 1
        name = "%s_%s_%d" % (kind, b, i)
        payload = lambda: {"backend": b, "lib_rs": open(r["src"]).read()[:20000], "stderr": r["stderr"], "note": r["note"], "expected_context": r["expect_ctx"]}
        if kind == "valid":
            distinct.update("%s|%s" % (b, s) for s in r["sigs"] if not spec.is_trivial_sig(s.split(":", 1)[1]))
            if k == "lowering":
                chk.violation(name, "valid module rejected by lowering for %s: %s" % (b, str(r["det"])[:300]), payload())
            elif k == "panic" and r["det"]["file"].startswith(("core/src/ast", "core/src/hir/lowering", "core/src/hir/type_context", "core/src/hir/elision", "core/src/hir/lifetimes")):
                chk.violation(name, "valid module crashes the gate for %s: %s" % (b, r["det"]), payload())
            continue
        opname = op.__name__[3:] if kind == "mutant" else "profile_" + PROFILE_FAULTS[op][0]
        distinct.add("%s|%s|%d" % (b, opname, pl))
        if k == "ok" or k == "gen_errors":
            chk.violation(name, "single-fault mutant accepted by %s: %s (%s)" % (b, r["note"], opname), payload(),
                          key={"operator": opname, "backend": b})
        elif k == "lowering":
            tname, mname = r["expect_ctx"]
            want = "%s::%s" % (tname, mname) if mname else tname
            ctxs = [c.strip() for c, _ in r["det"]]
            # a type-level fault (field, trait declaration) is reported under the type alone: `<Type>::<method>` there would be the
            # context of whatever method was lowered before it
            if not any(c == want for c in ctxs):
                chk.violation(name, "mutant %s rejected, but the error context is %s instead of %s" % (opname, ctxs[:3], want), payload(),
                              key={"operator": opname, "backend": b, "context": "wrong"})
        elif k == "panic" and "syn-inline-mod" in r["det"]["file"]:
            chk.inconc("%s: generated source does not parse (harness): %s" % (name, r["det"]["msg"][:120]))
        elif k == "panic":
            # rejected, but by a panic inside the parser / gate rather than by a diagnostic: not an acceptance (the property only
            # constrains the context of errors that lowering *reports*); counted, and a panic past the gate is C15's business
            if r["det"]["file"].startswith(("core/src/hir/lowering", "core/src/hir/type_context")) and "unwrap()" in r["det"]["msg"]:
                # lowering collected its errors and then threw them away: the user gets `called Result::unwrap() on an Err value`
                # instead of `Lowering error in <Type>::<method>: ...`, i.e. a reported rejection without its context
                chk.violation(name, "mutant %s (%s) is rejected by a bare unwrap() panic in %s; the lowering errors and their context are lost" % (opname, r["note"], r["det"]["file"]),
                              payload(), key={"operator": opname, "backend": b, "context": "lost in panic"})
            elif r["det"]["file"].startswith(("core/src/ast", "core/src/hir/lowering", "core/src/hir/type_context", "core/src/hir/elision", "core/src/hir/lifetimes")):
                counts["mutant_rejected_by_panic_in_gate"] = counts.get("mutant_rejected_by_panic_in_gate", 0) + 1
                panics.add((opname, r["det"]["file"], r["det"]["msg"][:80]))
            else:
                chk.violation(name, "mutant %s (%s) passed the gate and crashed %s at %s: %s" % (opname, r["note"], b, r["det"]["file"], r["det"]["msg"][:160]),
                              payload(), key={"operator": opname, "panic_file": r["det"]["file"]})
        else:
            chk.inconc("%s: tool outcome %s" % (name, k))
    chk.evaluations = sum(1 for r in results if r["status"] == "ran")
    chk.distinct = distinct
    chk.rule = ("valid side: seeded modules from the grammar generator restricted to each backend's support profile (must be accepted); fault side: "
                "%d rule-breaking operators (one per documented rule) x %d placements on different base modules x 7 backends, plus unsupported-feature "
                "faults per profile; a mutant must exit with `Lowering error in <Type>[::<method>]` naming the mutated item. distinct_nontrivial = "
                "distinct (backend, operator, placement) triples + distinct accepted method shapes." % (len(OPERATORS), placements))
    chk.extra = {"rejections_delivered_as_panic": sorted(panics), "outcomes": counts, "operators": [o.__name__[3:] for o in OPERATORS], "profile_faults": [f[0] for f in PROFILE_FAULTS]}
    chk.sample({"operator": "owned_opaque_param", "mutation": "add parameter `bad: Box<Op1>` to Op1::m2", "expected": "Lowering error in Op1::m2: found Box<T> in input ..."})
    chk.sample({"operator": "missing_struct_bound", "mutation": "fn bad_bound<'a,'b>(v: BoundedSt<'a,'b>) with struct BoundedSt<'x, 'y: 'x>", "expected": "Lowering error in Op1::bad_bound: Method should explicitly include this lifetime bound"})
    chk.assumptions = ["'iff' is relative to the operator catalogue in this file (one operator per rule named in the property and the book)"]
    return chk.finish()
