"""C03 — values crossing the boundary are destroyed exactly once; no memory errors.
Leg 1 (here): runtime types under a drop-counting monitor, natively, ASan, valgrind, Miri.
Leg 2/3 (api.py): histories over generated C/C++ APIs and macro-expanded code under Miri."""
import rt
from common import Check, NCPU


def runtime_leg(chk, tier, seed):
    thorough = tier == "thorough"
    jobs = [("debug", ["c03-directed", 400]), ("asan", ["c03-directed", 400]), ("miri", ["c03-directed", 140 if thorough else 42], 3000)]
    nh = 4000 if thorough else 400
    for s in range(4):
        jobs.append(("debug", ["c03", seed * 1000 + s, nh, 14]))
        jobs.append(("asan", ["c03", seed * 1000 + 10 + s, nh, 14]))
        jobs.append(("release", ["c03", seed * 1000 + 20 + s, nh, 14]))
    for s in range(2):
        jobs.append(("valgrind", ["c03", seed * 1000 + 30 + s, nh // 8, 14]))
    for s in range(NCPU - 2 if thorough else 6):
        jobs.append(("miri", ["c03", seed * 1000 + 40 + s, 150 if thorough else 20, 12], 3000))
    # the Rust-owned writer when the allocator refuses a growth (fault-injecting global allocator, one scenario per process: the
    # legitimate outcome on a tree that uses `Vec::reserve` is the allocation-failure abort)
    for cap0, pre in ((16, 5), (0, 0), (1, 1), (64, 64), (8, 40), (0, 3)):
        for mode in ("debug", "asan", "valgrind", "miri"):
            jobs.append((mode, ["c12-oom", cap0, pre]))
    results = rt.run_all(jobs)
    total = rt.judge(chk, results, "C03")
    return results, total


def main(tier, seed):
    chk = Check("C03", tier, seed, "exploration")
    results, total = runtime_leg(chk, tier, seed)
    api_stats = {}
    try:
        import api
        api_stats = api.c03_leg(chk, tier, seed)
    except ImportError:
        pass
    chk.evaluations = total.get("ops", 0) + total.get("directed_steps", 0) + api_stats.get("calls", 0)
    chk.distinct = total.get("distinct_op_shapes", 0) + api_stats.get("distinct_histories", 0)
    chk.rule = ("runtime leg: seeded random histories (create / convert / observe / clone / drop, <= 14 ops) over 20 value kinds "
                "(DiplomatResult, DiplomatOption, DiplomatOwnedSlice incl. NULL+0, owned str, nested results, callbacks with/without "
                "destructor, Rust-owned DiplomatWrite; both arms) with id-tagged heap-owning payloads; after every op each live id must "
                "have drop count 0 and each released id exactly 1. distinct_nontrivial = distinct operation-shape strings per process "
                "(summed over processes with different seeds) + distinct API histories. API legs: generated bridges (real proc macro) with scripted "
                "histories through the generated C API (gcc ASan+UBSan, valgrind subset), the generated C++ owning wrappers (g++ ASan), and "
                "from a Rust driver inside the bridge module that calls the macro's extern \"C\" functions as a foreign caller would (raw "
                "{ptr,len} views, diplomat_alloc'd owned arguments, raw opaque handles, transmuted callbacks) interpreted by Miri (Stacked "
                "Borrows; a quarter each additionally with symbolic alignment checking, strict provenance, or Tree Borrows; leak check on); NEW/DROP/CBDROP conservation is checked on every observed log.")
    chk.extra = {"runtime_stats": total, "api_stats": api_stats, "modes": sorted({r.mode for r in results}),
                 "processes": len(results), "sanitizer_reports": sum(len(r.sanitizer_reports()) for r in results)}
    chk.sample({"history": ["create DiplomatOption<DiplomatOwnedSlice<T>> ids=[4,5]",
                            "convert -> Option<DiplomatOwnedSlice<T>> (what the macro emits for an Option<Box<[T]>> parameter)",
                            "convert -> Option<Box<[T]>>", "drop"], "oracle": "ids 4,5: drop count 0 until the last step, then exactly 1"})
    chk.sample({"argv": [str(a) for a in results[-1].args], "stats": results[-1].stats})
    chk.assumptions = ["x86-64, System allocator", "Miri: default Stacked Borrows, leak check on"]
    return chk.finish()
