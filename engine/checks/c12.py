"""C12 — DiplomatWrite is exact and never overruns its buffer (runtime half; the
end-to-end C/C++ half lives in the bridge driver checks and is merged in here)."""
import rt
from common import Check, NCPU


def api_leg(chk, tier, seed):
    """end-to-end: bridge methods writing scripted chunk lists, called through the generated C API (diplomat_buffer_write_* and
    diplomat_simple_write over exactly-sized heap buffers, incl. too small ones) and the C++ API (std::string returns), under ASan;
    and from a Rust foreign-caller driver interpreted by Miri."""
    import api
    from common import pmap
    thorough = tier == "thorough"
    n = 160 if thorough else 16
    prof = dict(write_prob=0.95, max_params=3, callbacks=False)
    stats = {"programs_c": 0, "programs_cpp": 0, "write_calls": 0, "fixed_buffer_calls": 0, "truncated_fixed_buffer_calls": 0}

    def one(job):
        lang, i = job
        if lang == "c":
            return lang, api.run_c_program(seed + 12000, i, "c12c", profile=prof, ncalls=45)
        return lang, api.run_cpp_program(seed + 12000, i, "c12cpp", profile=prof, ncalls=45, stds=("c++17",))
    res = pmap(one, [(l, i) for l in ("c", "cpp") for i in range(n)])
    # the same write-heavy histories from a Rust driver calling the macro's extern "C" functions, interpreted by Miri: the macro's
    # flush calls, diplomat_simple_write's NUL termination and the Rust-owned buffer's grow() run under Miri's bounds/provenance checks
    res += [("miri", r) for r in api.run_miri_programs(seed + 12500, (120 if thorough else 16), "c12", profile=prof, ncalls=(40 if thorough else 25))]
    stats["programs_miri"] = 0
    for lang, r in res:
        if r["status"] == "skip":
            chk.inconc("e2e %s p%d skipped at %s" % (lang, r["idx"], r["stage"]))
            continue
        if r["status"] == "inconclusive":
            chk.inconc("e2e %s p%d: %s" % (lang, r["idx"], r.get("detail")))
            continue
        stats["programs_" + lang] += 1
        for st in r["script"].steps:
            if st["kind"] == "call" and not st.get("rejected"):
                for pn, pt in st["m"].params:
                    if pt == ("write",):
                        stats["write_calls"] += 1
                        w = st["args"][pn]
                        if w["mode"] == "fixed":
                            stats["fixed_buffer_calls"] += 1
                            if sum(len(c.encode()) for c in w["chunks"]) > w["size"] - 1:
                                stats["truncated_fixed_buffer_calls"] += 1
        if r["status"] == "violation":
            d = r.get("diff")
            # only write-related disagreements and memory reports belong to C12; other value mismatches are C01/C02's
            text = " ".join(str(x) for x in (d or ())) + " ".join(r.get("reports") or [])
            if d is None or "WR " in text or '"' in (d[1] if d else "") or r.get("reports"):
                chk.violation("e2e_%s_p%d" % (lang, r["idx"]), "end-to-end %s p%d: %s" % (lang, r["idx"], ("event %d expected `%s` observed `%s`" % d) if d else str(r.get("reports") or r.get("detail"))[:300]),
                              api.witness(r))
    return stats


def main(tier, seed):
    chk = Check("C12", tier, seed, "fault_enumeration")
    thorough = tier == "thorough"
    k = 4 if thorough else 3
    jobs = []
    for s in range(NCPU):
        jobs.append(("debug", ["c12-exh", k, s, NCPU, "canary"]))     # debug_asserts on, canary monitor
    for s in range(NCPU if thorough else 4):
        n = NCPU if thorough else 4
        jobs.append(("asan", ["c12-exh", k if thorough else 3, s, n, "exact"]))  # exact-size buffers under ASan
    jobs.append(("release", ["c12-exh", k, 0, 1, "canary"]))          # release: debug_asserts off
    vk = 3 if thorough else 2
    for s in range(4):
        jobs.append(("valgrind", ["c12-exh", vk, s, 4, "exact"]))
    for s in range(8):
        jobs.append(("miri", ["c12-exh", 3 if thorough else 2, s, 8 if not thorough else 8, "exact"], 3000))
    nr = 20000 if thorough else 2000
    jobs += [("debug", ["c12-rand", seed, nr, "canary"]), ("asan", ["c12-rand", seed + 1, nr, "exact"]),
             ("release", ["c12-rand", seed + 2, nr, "canary"]),
             ("valgrind", ["c12-rand", seed + 3, nr // 20, "exact"]),
             ("miri", ["c12-rand", seed + 4, 60 if thorough else 15, "exact"])]
    # the Rust-owned writer when the allocator refuses a growth (fault-injecting global allocator, one scenario per process: the
    # legitimate outcome on a tree that uses `Vec::reserve` is the allocation-failure abort)
    for cap0, pre in ((16, 5), (0, 0), (1, 1), (64, 64), (8, 40), (0, 3)):
        for mode in ("debug", "asan", "valgrind", "miri"):
            jobs.append((mode, ["c12-oom", cap0, pre]))
    results = rt.run_all(jobs)
    total = rt.judge(chk, results, "C12")
    api_stats = api_leg(chk, tier, seed)
    chk.evaluations = total.get("write_ops", 0) + api_stats["write_calls"]
    dbg = [r for r in results if r.mode == "debug" and "c12-exh" in r.args]
    chk.distinct = sum(r.stats.get("runs", 0) for r in dbg)
    chk.rule = ("fault enumeration: every chunk sequence of <= %d chunks over {\"\", a, é(2B), €(3B), 😀(4B), 17-byte} x every consumed "
                "pattern of grow() outcomes {fail, exact, more} x initial capacities {1,2,3,4,5,8,16} for caller-supplied writers; the same "
                "sequences over diplomat_buffer_write_create(cap 0..16) and diplomat_simple_write(size 1..20); model compared after every "
                "write (contents, len<=cap, sticky flag, accessor results, grow request sizes, canary). distinct_nontrivial = distinct "
                "(sequence, capacity, outcome-pattern) runs of the debug canary sweep; other modes repeat the sweep under ASan "
                "(exact-size buffers), valgrind, Miri and in release." % k)
    chk.exhaustive = True
    chk.extra = {"end_to_end": api_stats, "stats": total, "modes": sorted({r.mode for r in results}), "processes": len(results),
                 "max_chunks": k, "sanitizer_reports": sum(len(r.sanitizer_reports()) for r in results),
                 "distinct_grow_patterns": max([r.stats.get("distinct_grow_patterns", 0) for r in results] or [0])}
    chk.sample({"chunks": ["€", "0123456789abcdefg", "a"], "cap0": 2, "grow_outcomes": ["exact", "fail"],
                "expected": "buffer == '€' after chunk 1, unchanged and flagged after chunk 2, chunk 3 ignored; accessors NULL/0"})
    chk.sample({"fixed writer": {"size": 4, "chunks": ["a", "é", "a"]}, "expected": "'aé' + NUL at offset 3; third chunk truncated, flag set"})
    chk.sample({"argv": [str(a) for a in results[0].args], "stats": results[0].stats})
    chk.assumptions = ["grow callbacks honour the documented contract (return false without changing state, or provide >= requested)",
                       "C++ _grow is infallible by design; std::bad_alloc is not injected"]
    return chk.finish()
