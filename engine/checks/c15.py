"""C15 — after successful lowering no backend crashes (panic / unreachable / index out of range)."""
import os
import random

import common
import toolrun
import tooltier
from common import Check, pmap

IN_GATE = ("core/src/ast/", "core/src/hir/lowering.rs", "core/src/hir/elision.rs", "core/src/hir/type_context.rs",
           "core/src/hir/attrs.rs", "core/src/hir/lifetimes.rs", "core/src/hir/paths.rs", "core/src/hir/ty_position.rs")

VARIANTS = {
    "c": [("", [])], "cpp": [("", [])], "dart": [("", [])],
    "js": [("", []), ('[js]\nabi = "spec"\n', []), ('[js]\nabi = "legacy"\n', [])],
    "kotlin": [('lib_name = "vflib"\n[kotlin]\ndomain = "dev.vf"\n', []),
               ('lib_name = "other_lib"\n[kotlin]\ndomain = "org.example.deep"\nuse_finalizers_not_cleaners = true\n', [])],
    "nanobind": [('lib_name = "vflib"\n', []), ('lib_name = "x"\n', [])],
    "demo_gen": [("", []), ('[demo_gen]\nmodule_name = "vfmod"\n', []), ('[demo_gen]\nexplicit_generation = true\n', [])],
}


def main(tier, seed):
    chk = Check("C15", tier, seed, "exploration")
    n = 2500 if tier == "thorough" else 260
    common.build_tool()

    def one(i):
        out = []
        for b in toolrun.BACKENDS:
            prog = tooltier.backend_program(b, seed, i, avoid_known=False, extra_profile=(dict(opt_borrowed_params=True) if i % 5 == 2 else dict(opt_slice_fields=True) if i % 5 == 3 else dict(opt_named_lt=0.5, opt_slices=True) if i % 5 == 4 else None))
            if i % 6 == 1 and tooltier.add_zst_error(prog, random.Random("c15z/%s/%s/%s" % (seed, i, b))):
                tooltier.emit_rust.assign_abi_names(prog)
            if b == "demo_gen" and i % 2 == 0:
                tooltier.add_demo_attrs(prog, random.Random("c15demo/%s/%s" % (seed, i)))
            if i % 4 == 1:
                tooltier.add_docs(prog, random.Random("c15doc/%s/%s/%s" % (seed, i, b)))
            if i % 7 == 4:
                tooltier.underscore_fields(prog, random.Random("c15us/%s/%s/%s" % (seed, i, b)))
            if i % 7 == 2:
                tooltier.rename_variants(prog, random.Random("c15var/%s/%s/%s" % (seed, i, b)))
            if i % 3 == 0 and tooltier.add_special_methods(prog, random.Random("c15sp/%s/%s/%s" % (seed, i, b)), b):
                tooltier.emit_rust.assign_abi_names(prog)
            if i % 10 == 4 and tooltier.add_static_opaque_refs(prog, random.Random("c15st/%s/%s/%s" % (seed, i, b))):
                tooltier.emit_rust.assign_abi_names(prog)
                prods = tooltier.prog_productions(prog)
            if i % 50 == 7 and b == "nanobind":
                # directed probe (known finding F33): a property whose name is also the name of a sibling method
                hosts = [t for t in prog.types() if t.kind == "opaque" and not t.lifetimes]
                if hosts:
                    for nm, attr, sk, ret in (("size", None, ("ref", None), ("prim", "u32")), ("fetch_size", '#[diplomat::attr(auto, getter = "size")]', ("ref", None), ("prim", "u32"))):
                        m_ = tooltier.spec.Method(nm, sk, [], ret)
                        if attr:
                            m_.attrs.append(attr)
                        m_.owner = hosts[0]
                        hosts[0].methods.append(m_)
                    tooltier.emit_rust.assign_abi_names(prog)
            if i % 50 == 13 and b != "c":
                # directed probe (known finding F58): a rust_link whose path is too short for its doc type (`rust_link(baz, FnInStruct)`)
                ops_ = [t for t in prog.types() if t.kind == "opaque"]
                if ops_:
                    ops_[0].attrs.insert(0, "#[diplomat::rust_link(baz, FnInStruct)]")
            if i % 50 == 11 and not tooltier.profiles.support(b).get("namespacing"):
                # directed probe (known finding F56): two bridge modules declaring a type of the same identifier (legal Rust; C has no namespaces)
                tooltier.same_name_namespaced(prog, random.Random("c15same/%s/%s" % (seed, i)))
            if i % 50 == 9 and b in ("dart", "kotlin"):
                # directed probe (known finding F53): a type named like a core type of the target language
                en_ = tooltier.spec.Enum("Object", [("Va", None), ("Vb", None)])
                prog.modules[0].items.append(en_)
            if i % 4 == 3 and tooltier.add_traits(prog, random.Random("c15tr/%s/%s/%s" % (seed, i, b)), b):
                tooltier.emit_rust.assign_abi_names(prog)
            prods = tooltier.prog_productions(prog)
            d = toolrun.fresh_dir(toolrun.workdir("c15", "p%d_%s" % (i, b)))
            variants = VARIANTS[b]
            cfgtext, cli = variants[i % len(variants)]
            src, cfg = tooltier.write_program(prog, d, cfgtext)
            rc, o, e = toolrun.run_tool(b, src, os.path.join(d, "out"), config_file=cfg, configs=cli)
            kind, det = toolrun.classify_tool(rc, e)
            out.append(dict(backend=b, idx=i, kind=kind, det=det, src=src, prods=prods, cfg=cfgtext, stderr=e[-1500:],
                            sigs=[spec_sig for spec_sig in (tooltier.spec.method_sig(t, m) for t, m in prog.methods())]))
        return out
    runs = [r for rs in pmap(one, range(n)) for r in rs]
    outcomes = {}
    sigs = set()
    for r in runs:
        outcomes[(r["backend"], r["kind"])] = outcomes.get((r["backend"], r["kind"]), 0) + 1
        if r["kind"] in ("ok", "gen_errors"):
            sigs.update("%s|%s" % (r["backend"], s) for s in r["sigs"] if not tooltier.spec.is_trivial_sig(s.split(":", 1)[1]))
        if r["kind"] == "lowering":
            chk.inconc("p%d/%s rejected by lowering (generator outside the gate; C05's business): %s" % (r["idx"], r["backend"], str(r["det"])[:200]))
        elif r["kind"] in ("signal", "other", "timeout"):
            if r["kind"] == "timeout":
                chk.inconc("p%d/%s watchdog" % (r["idx"], r["backend"]))
            else:
                chk.violation("p%d_%s" % (r["idx"], r["backend"]), "%s ended abnormally (%s): %s" % (r["backend"], r["kind"], str(r["det"])[:300]),
                              {"lib_rs": open(r["src"]).read(), "config": r["cfg"], "stderr": r["stderr"]},
                              key={"backend": r["backend"], "kind": r["kind"]})
        elif r["kind"] == "panic":
            f = r["det"]["file"]
            # core/src/ast/docs.rs holds the docs URL generator, which only backends call while rendering (after lowering)
            if f.startswith(IN_GATE) and f != "core/src/ast/docs.rs":
                chk.inconc("p%d/%s panic inside the gate at %s (not past lowering): %s" % (r["idx"], r["backend"], f, r["det"]["msg"][:120]))
                continue
            key = {"backend": r["backend"], "file": f, "panic": tooltier.norm_panic(r["det"]["msg"]),
                   "productions": sorted(k for k, v in r["prods"].items() if v)}
            # an entry's "requires" production must be present in the crashing program (checked below through match())
            def matcher(entry_key, key=key):
                return True
            e = None
            for ent in chk.known.entries:
                k = ent["key"]
                if key["backend"] in k.get("backends", []) and k.get("file") == f and k.get("panic") == key["panic"] \
                        and any(p.startswith(k.get("requires", "")) for p in key["productions"]):
                    ent["seen"] += 1
                    e = ent
                    break
            if e is None:
                chk.violation("p%d_%s" % (r["idx"], r["backend"]),
                              "%s panicked after lowering at %s:%d: %s" % (r["backend"], f, r["det"]["line"], r["det"]["msg"][:200]),
                              {"lib_rs": open(r["src"]).read(), "config": r["cfg"], "stderr": r["stderr"], "key": key})
    chk.evaluations = len(runs)
    chk.distinct = sigs
    chk.rule = ("per backend, seeded small bridge modules (1-2 opaques, 0-2 structs, 0-1 enums, 1-4 methods) restricted only by the backend's own "
                "attr_support() profile (read from the working tree), run through the real diplomat-tool binary with rotating config variants; "
                "a panic located in tool/src/** or core/src/hir/methods/** is a violation unless it matches a known finding on (backend, file, "
                "normalised message, required production). distinct_nontrivial = distinct (backend, method shape signature) pairs that reached the backend.")
    chk.extra = {"outcomes": {"%s:%s" % k: v for k, v in sorted(outcomes.items())}, "programs_per_backend": n,
                 "config_variants": {b: len(v) for b, v in VARIANTS.items()}}
    ex = [r for r in runs if r["kind"] == "ok"][:2]
    for r in ex:
        chk.sample({"backend": r["backend"], "outcome": r["kind"], "method_shapes": r["sigs"][:4], "config": r["cfg"]})
    chk.assumptions = ["required config (kotlin domain/lib_name, nanobind lib_name) is always supplied: its absence is a user error, not a backend crash",
                       "128-bit integers excluded"]
    return chk.finish()
