"""C01 — the Rust extern "C" layer and the generated C headers agree on the ABI.
Differential execution: a C11 driver written against the generated headers calls every
method of a generated bridge with scripted values; the Rust bodies log what arrives and
return scripted values; the merged event log must equal the log predicted from the script."""
import api
import toolrun
import common
from common import Check, pmap


def main(tier, seed):
    chk = Check("C01", tier, seed, "exploration")
    thorough = tier == "thorough"
    nprog = 1500 if thorough else 160
    nval = 120 if thorough else 6
    toolrun.anchor()
    common.build_tool()

    def one(i):
        # every third program also declares traits and takes `impl Trait` parameters: the driver implements the vtable
        return api.run_c_program(seed, i, "c01", ncalls=40, valgrind=(i < nval), profile=(dict(traits=True, trait_prob=0.3, trait_method_disable=(0.4 if i % 2 else 0.0)) if i % 3 == 0 else dict(held_callbacks=True, cb_orefs=True, cb_oboxes=True) if i % 3 == 1 else dict(multi_cb=True, cb_bias=0.25, cb_oboxes=True)))
    results = pmap(one, range(nprog))
    # feature quotas are met by construction: while a required production has not been exercised, run further programs (new indices)
    for round_ in range(4):
        if not api.quota_gaps(api.productions(results), api.REQUIRED_C):
            break
        results += pmap(one, range(len(results), len(results) + max(8, nprog // 4)))
    sigs = set()
    calls = events = skipped = 0
    for r in results:
        if r["status"] == "violation":
            d = r.get("diff")
            summ = ("program p%d stage=%s: " % (r["idx"], r["stage"])) + (
                "event %d expected `%s` observed `%s`" % d if d else (str(r.get("reports") or r.get("detail"))[:400]))
            chk.violation("p%d" % r["idx"], summ, api.witness(r))
        elif r["status"] == "skip":
            skipped += 1
            chk.inconc("p%d skipped at %s (owned by C09/C15/C05): %s" % (r["idx"], r["stage"], (r.get("detail") or "")[:160].replace("\n", " ")))
        elif r["status"] == "inconclusive":
            chk.inconc("p%d: %s" % (r["idx"], r.get("detail")))
        if r["status"] in ("ok", "violation"):
            calls += r["calls"]
            events += r.get("observed_events", 0)
            sigs.update(s for s in r["sigs"] if not api.spec.is_trivial_sig(s.split(":", 1)[1]))
    prods = api.productions(results)
    gaps = api.quota_gaps(prods, api.REQUIRED_C)
    chk.evaluations = calls
    chk.distinct = sigs
    chk.rule = ("seeded grammar-generated bridge modules (1-2 opaques, 1-3 structs, 0-2 out-structs, 1-2 enums, 3-7 methods per opaque, methods on "
                "structs/enums) compiled with the real proc macro; C driver compiled against freshly generated headers with gcc -std=c11 "
                "ASan+UBSan (every third program also declares traits whose vtables the driver implements, another third keeps `'static` callbacks in holder opaques and invokes them in later calls); ~40 scripted calls per program with boundary/extreme/NaN-payload/NULL+0 values; every CALL/CB/CBRET/NEW/DROP/RET/"
                "MUT/WR record compared with the script's prediction. distinct_nontrivial = distinct method shape signatures "
                "(owner kind, self kind, parameter and return productions) containing a non-primitive production.")
    chk.extra = {"programs": len(results), "programs_skipped": skipped, "events_observed": events,
                 "valgrind_programs": sum(1 for r in results if r.get("valgrind")),
                 "production_counts": dict(sorted(prods.items())), "quota_gaps": gaps}
    ok = [r for r in results if r["status"] == "ok"]
    if ok:
        r = ok[0]
        st = [s for s in r["script"].steps if s["kind"] == "call" and s["m"].name not in ("make",)][:2]
        for s in st:
            chk.sample({"program": "p%d" % r["idx"], "method": api.spec.method_sig(s["owner"], s["m"]),
                        "abi": s["m"].abi_name, "events": [l for _, l in s["expect"]]})
    chk.assumptions = ["x86-64 SysV, gcc 12", "documented C type names (DiplomatU8View, OptionU8, <Type>_option, <abi>_result) are the user-facing API",
                       "128-bit integers and Rust `char` excluded (`char` is not accepted by the parser at this commit)"]
    whole = None
    if skipped * 2 > len(results):
        whole = "more than half of the programs were skipped before reaching the driver"
    elif gaps:
        # still not reached after the top-up rounds: stated in the evidence (quota_gaps), not a verdict
        print("NOTE property=%s productions not exercised in this run: %s" % (chk.prop, ",".join(gaps)), flush=True)
    return chk.finish(whole)
