"""C09 — whatever the tool accepts builds: the macro expansion type-checks, every C header compiles alone as
C11, every C++ header compiles alone as C++17 and C++20 (and all together in arbitrary order), every JS module
parses and every include/import refers to a generated file and a name it defines."""
import os
import random
import re

import common
import emit_rust
import toolrun
import tooltier
from common import Check, pmap, run

SIBLING = re.compile(r"(redefinition of|conflicting types for|redeclaration of|has already been declared)[^\n]*\b(default_|new_)\b|\b(default_|new_)\b[^\n]*\b(default_|new_)\b")
# the C++ wrapper escapes a keyword-named field (`friend_`) while the C struct it converts to keeps the bare keyword: same finding F12
KW_MEMBER = re.compile(r"has no member named ‘(%s)_’" % "|".join(tooltier.KEYWORD_FIELDS))
KW_LINE = re.compile(r"(?:^|[\s.>(])(%s)\s*[;=,)]" % "|".join(tooltier.KEYWORD_FIELDS), re.M)
INCLUDE_RE = re.compile(r'^\s*#\s*include\s+"([^"]+)"', re.M)
IMPORT_RE = re.compile(r'^\s*(?:import|export)\s+(?:type\s+)?(?:(\*\s+as\s+\w+|\{[^}]*\}|\w+)\s+from\s+)?["\']([^"\']+)["\']', re.M)


def list_files(root, exts):
    out = []
    for r, _, fs in os.walk(root):
        for f in fs:
            if f.endswith(exts):
                out.append(os.path.relpath(os.path.join(r, f), root))
    return sorted(out)


def exported_names(txt):
    names = set(re.findall(r"export\s+(?:default\s+)?(?:class|function|const|let|var|enum|interface|type|abstract class)\s+([A-Za-z_$][\w$]*)", txt))
    for grp in re.findall(r"export\s*\{([^}]*)\}", txt):
        for part in grp.split(","):
            part = part.strip()
            if part:
                names.add(part.split(" as ")[-1].strip())
    for ns in re.findall(r"export\s+\*\s+as\s+(\w+)", txt):
        names.add(ns)
    return names


def main(tier, seed):
    chk = Check("C09", tier, seed, "exploration")
    thorough = tier == "thorough"
    nprog = 200 if thorough else 15
    common.build_tool()
    toolrun.anchor()
    stats = {"rustc": 0, "c_headers": 0, "cpp_headers_x_std": 0, "cpp_all_orders": 0, "mjs": 0, "includes_resolved": 0, "imports_resolved": 0, "fixed_corpus_files": 0, "cfg_attrs": 0}
    shapes = set()
    cjobs = []

    def check_c(out, viol, st):
        hs = list_files(out, (".h",))
        jobs = []
        for h in hs:
            jobs.append(h)
            for inc in INCLUDE_RE.findall(open(os.path.join(out, h)).read()):
                st["includes_resolved"] += 1
                if not (os.path.exists(os.path.join(out, os.path.dirname(h), inc)) or os.path.exists(os.path.join(out, inc))):
                    viol.append(("c", h, "#include \"%s\" names a file that was not generated" % inc))
        for h in jobs:
            cjobs.append((["gcc", "-std=c11", "-fsyntax-only", "-x", "c", "-I", out, os.path.join(out, h)], "c_headers", ("c", h, "does not compile on its own as C11: "), viol, st, None))

    def check_cpp(out, viol, st, rng, limit=None):
        hs = list_files(out, (".hpp",))
        for h in hs:
            for inc in INCLUDE_RE.findall(open(os.path.join(out, h)).read()):
                st["includes_resolved"] += 1
                if not (os.path.exists(os.path.join(out, os.path.dirname(h), inc)) or os.path.exists(os.path.join(out, inc))):
                    viol.append(("cpp", h, "#include \"%s\" names a file that was not generated" % inc))
        sel = hs if (limit is None or len(hs) <= limit) else rng.sample(hs, limit)
        for h in sel:
            for std in ("c++17", "c++20"):
                cjobs.append((["g++", "-std=" + std, "-fsyntax-only", "-x", "c++", "-I", out, os.path.join(out, h)], "cpp_headers_x_std",
                              ("cpp", h, "does not compile on its own as %s: " % std), viol, st, None))
        for k in range(5 if thorough else 2):
            order = list(hs)
            rng.shuffle(order)
            tu = os.path.join(out, "vf_all_%d.cpp" % k)
            open(tu, "w").write("".join('#include "%s"\n' % h for h in order) + "int main() { return 0; }\n")
            cjobs.append((["g++", "-std=" + ("c++17" if k % 2 else "c++20"), "-fsyntax-only", "-I", out, tu], "cpp_all_orders",
                          ("cpp", "all headers, order %s" % order[:4], "do not compile together: "), viol, st, tu))

    def check_js(out, viol, st):
        ms = list_files(out, (".mjs",))
        for m in ms:
            cjobs.append((["node", "--check", os.path.join(out, m)], "mjs", ("js", m, "does not parse: "), viol, st, None))
        for f in ms + list_files(out, (".d.ts",)):
            txt = open(os.path.join(out, f)).read()
            for what, target in IMPORT_RE.findall(txt):
                if not target.startswith(".") or target.startswith("../"):
                    continue        # bare specifiers and the user-supplied ../diplomat.config.mjs are not generated files
                st["imports_resolved"] += 1
                tp = os.path.normpath(os.path.join(out, os.path.dirname(f), target))
                cands = [tp, tp + ".mjs", tp + ".d.ts", re.sub(r"\.mjs$", ".d.ts", tp)] if f.endswith(".d.ts") else [tp]
                hit = [c for c in cands if os.path.isfile(c)]
                if not hit:
                    viol.append(("js", f, "imports \"%s\" which was not generated" % target))
                    continue
                if what.startswith("{"):
                    ex = set()
                    for h in hit:
                        ex |= exported_names(open(h).read())
                        if h.endswith(".d.ts"):
                            # top-level declarations of a declaration file are importable as types whether or not they say `export`
                            ex |= set(re.findall(r"^(?:export\s+)?(?:declare\s+)?(?:type|class|interface|enum|function|const)\s+([A-Za-z_$][\w$]*)", open(h).read(), re.M))
                    for nm in what.strip("{} ").split(","):
                        nm = nm.strip().split(" as ")[0].replace("type ", "").strip()
                        if nm and nm not in ex:
                            viol.append(("js", f, "imports name %s from \"%s\" which does not export it" % (nm, target)))

    def one(i):
        rng = random.Random("c09/%s/%s" % (seed, i))
        viol, st, inconc, shp = [], dict.fromkeys(stats, 0), [], []
        for b in ("cpp", "js"):
            prog = tooltier.backend_program(b, seed, i, avoid_known=True, size=("large" if i % 3 == 0 else "small"), salt="c09")
            tooltier.reference_graph_features(prog, rng, this_param=(i % 6 == 5), keyword_fields=(i % 5 == 4))
            if i % 7 == 3:
                # directed probe: a keyword-named parameter next to a sibling that already carries the escaped spelling
                cands = [(t, m) for t, m in prog.methods() if m.name != "make" and not any(pt[0] in ("write", "cb") for _, pt in m.params)
                         and not any(pn.replace("_", "") in ("default", "new") for pn, _ in m.params)]
                if cands:
                    t_, m_ = rng.choice(cands)
                    kw = "default" if b == "cpp" else "new"
                    m_.params = [(kw, ("prim", "u8")), (kw + "_", ("prim", "u16"))] + m_.params
            if i % 7 == 4 and b == "cpp":
                # directed probe (F61): parameters named after typedefs the generated C headers use themselves
                cands61 = [(t, m) for t, m in prog.methods() if m.name != "make" and not any(pt[0] in ("write", "cb", "tr") for _, pt in m.params)]
                if cands61:
                    t_, m_ = rng.choice(cands61)
                    # (legal C on its own; it breaks the prototype when a later parameter is *typed* with the typedef, as DiplomatChar is)
                    m_.params = [("char32_t", ("prim", "u8"))] + m_.params + [("vfc", ("prim", "DiplomatChar"))]
                    m_.name = "vf_f61"
            if i % 7 == 6 and b == "js":
                # directed probe (F54): a member named `constructor` (not a reserved word, but special inside a JS class body)
                ops = [t for t in prog.types() if t.kind == "opaque"]
                sts = [t for t in prog.types() if t.kind == "struct"]
                if sts and (i // 7) % 2:
                    sts[0].fields.append(("constructor", ("prim", "u8")))
                elif ops:
                    pm = tooltier.spec.Method("constructor", ("ref", None), [], ("prim", "u8"))
                    pm.owner = ops[0]
                    ops[0].methods.append(pm)
            if i % 7 == 5 and b == "cpp":
                # directed probe (F39): callback types the C++ fn_traits glue cannot convert
                ops = [t for t in prog.types() if t.kind == "opaque"]
                if ops:
                    t_ = rng.choice(ops)
                    sts = [x for x in prog.types() if x.kind == "struct" and not x.lifetimes]
                    ens = [x for x in prog.types() if x.kind == "enum"]
                    shapes39 = {"optarg": ("cb", [("opt", ("prim", "u8"), "std")], ("prim", "i32"), False),
                                "optret": ("cb", [("prim", "u8")], ("opt", ("prim", "u32"), "std"), False),
                                "slicearg": ("cb", [("slice", "i16", False, None, "std")], ("unit",), False)}
                    # (F52, same family) values Rust hands over by ownership, optional aggregates in either direction
                    shapes52 = {"boxarg": ("cb", [("obox", t_.name, False)], ("prim", "u8"), False),
                                "optboxarg": ("cb", [("obox", t_.name, True)], ("prim", "u8"), False)}
                    if sts:
                        shapes52["optstructarg"] = ("cb", [("opt", ("struct", sts[0].name), "std")], ("prim", "u8"), False)
                        shapes52["optstructret"] = ("cb", [("prim", "u8")], ("opt", ("struct", sts[0].name), "std"), False)
                    if ens:
                        shapes52["optenumarg"] = ("cb", [("opt", ("enum", ens[0].name), "std")], ("unit",), False)
                        shapes52["optenumret"] = ("cb", [("prim", "u8")], ("opt", ("enum", ens[0].name), "std"), False)
                    fam = shapes39 if (i // 7) % 2 == 0 else shapes52
                    which = rng.choice(sorted(fam))
                    cbt = fam[which]
                    pm = tooltier.spec.Method("vf_f39" if fam is shapes39 else "vf_f52", None, [("f", cbt)], ("prim", "u8"))
                    pm.owner = t_
                    t_.methods.append(pm)
            if i % 2:
                tooltier.decorate(prog, rng, p_item=0.2)
            if i % 5 == 2:
                tooltier.add_zst_error(prog, rng)
            if i % 3 == 0:
                tooltier.add_special_methods(prog, rng, b)
            if i % 4 == 1:
                tooltier.add_docs(prog, rng)
            if i % 5 == 3:
                tooltier.rename_variants(prog, rng)
            if i % 6 == 1:
                tooltier.underscore_fields(prog, rng)
            twin = tooltier.same_name_namespaced(prog, rng) if (i % 6 == 4 and b == "cpp") else 0          # (backends without namespaces: C15's F56 probe)
            ncfg = tooltier.add_cfgs(prog, rng) if i % 4 == 2 else 0
            emit_rust.assign_abi_names(prog)
            d = toolrun.fresh_dir(toolrun.workdir("c09", "p%d_%s" % (i, b)))
            src, cfg = tooltier.write_program(prog, d, "")
            # (C has no namespaces: two types of one identifier cannot both have a header there, see C15's F56 probe)
            backs = (("cpp",) if twin else ("c", "cpp")) if b == "cpp" else ("js",)
            accepted = True
            for bb in backs:
                rc, o, e = toolrun.run_tool(bb, src, os.path.join(d, bb), config_file=cfg, configs=(["js.abi=spec"] if (bb == "js" and i % 2) else []))
                kind, det = toolrun.classify_tool(rc, e)
                if kind != "ok":
                    accepted = False
                    inconc.append("p%d/%s not accepted (%s): %s" % (i, bb, kind, str(det)[:160]))
            if not accepted:
                continue
            shp += ["%s|%s" % (b, s) for s in (tooltier.spec.method_sig(t, m) for t, m in prog.methods())]
            rc, o, e = toolrun.rustc_lib(src, os.path.join(d, "lib.rlib"), crate_type="rlib")
            st["rustc"] += 1
            if rc != 0:
                this_clash = "identifier `this` is bound more than once" in e
                viol.append(("rustc", "lib.rs", "macro expansion does not type-check: " + e[:900], {"this_clash": this_clash, "src": src}))
            else:
                os.remove(os.path.join(d, "lib.rlib"))
                if ncfg:
                    # the other way round for every `feature = ".."` condition
                    st["cfg_attrs"] += ncfg
                    rc, o, e = toolrun.rustc_lib(src, os.path.join(d, "lib.rlib"), crate_type="rlib", extra=["--cfg", 'feature="vfx"'])
                    st["rustc"] += 1
                    if rc != 0:
                        viol.append(("rustc", "lib.rs", "macro expansion does not type-check with --cfg feature=\"vfx\": " + e[:900], {"src": src}))
                    else:
                        os.remove(os.path.join(d, "lib.rlib"))
            if b == "cpp":
                if not twin:
                    check_c(os.path.join(d, "c"), viol, st)
                check_cpp(os.path.join(d, "cpp"), viol, st, rng)
            else:
                check_js(os.path.join(d, "js"), viol, st)
        if i % 3:
            # trait legs: the C backend also accepts traits and `impl Trait` parameters (cpp does not); Kotlin accepts them with Send / Sync
            # supertraits (its output cannot be compiled here, the macro expansion of what it accepts can)
            tb = "c" if i % 3 == 1 else "kotlin"
            prog = tooltier.backend_program(tb, seed, i, avoid_known=True, size="small", salt="c09tr")
            if tooltier.add_traits(prog, rng, tb):
                emit_rust.assign_abi_names(prog)
                d = toolrun.fresh_dir(toolrun.workdir("c09", "p%d_%str" % (i, tb)))
                src, cfg = tooltier.write_program(prog, d, tooltier.STD_CONFIG[tb])
                rc, o, e = toolrun.run_tool(tb, src, os.path.join(d, tb), config_file=cfg)
                kind, det = toolrun.classify_tool(rc, e)
                if kind != "ok":
                    inconc.append("p%d/%s (traits) not accepted (%s): %s" % (i, tb, kind, str(det)[:160]))
                else:
                    shp += ["%s|%s" % (tb, s) for s in (tooltier.spec.method_sig(t, m) for t, m in prog.methods())]
                    shp += ["%s|trait:%s" % (tb, re.sub(r"\s+", " ", l.strip())) for l in "".join(m_.extra_src for m_ in prog.modules).splitlines() if "fn tm" in l or "pub trait" in l]
                    rc, o, e = toolrun.rustc_lib(src, os.path.join(d, "lib.rlib"), crate_type="rlib")
                    st["rustc"] += 1
                    if rc != 0:
                        viol.append(("rustc", "lib.rs", "macro expansion (traits) does not type-check: " + e[:900], {"src": src}))
                    else:
                        os.remove(os.path.join(d, "lib.rlib"))
                    if tb == "c":
                        check_c(os.path.join(d, "c"), viol, st)
        return i, viol, st, inconc, shp

    results = pmap(one, range(nprog))

    # fixed corpus: the repository's own bridges
    def corpus(name):
        viol, st = [], dict.fromkeys(stats, 0)
        entry = os.path.join(common.REPO, name, "src", "lib.rs")
        d = toolrun.fresh_dir(toolrun.workdir("c09", "corpus_" + name))
        for bb in ("c", "cpp", "js"):
            rc, o, e = toolrun.run_tool(bb, entry, os.path.join(d, bb), config_file=os.path.join(common.REPO, name, "config.toml"), cwd=os.path.join(common.REPO, name))
            if rc != 0:
                viol.append((bb, name, "the repository's own %s bridge is not accepted: %s" % (name, e[-300:])))
                continue
        rng = random.Random(name)
        if os.path.isdir(os.path.join(d, "c")):
            check_c(os.path.join(d, "c"), viol, st)
        if os.path.isdir(os.path.join(d, "cpp")):
            check_cpp(os.path.join(d, "cpp"), viol, st, rng, limit=(None if thorough else 14))
        if os.path.isdir(os.path.join(d, "js")):
            check_js(os.path.join(d, "js"), viol, st)
        return name, viol, st, [], []
    results += pmap(corpus, ["feature_tests", "example"])

    def trait_receivers(_):
        """directed probe (F50): every receiver a trait method can be written with (none, self, &self, &mut self); whatever the C and Kotlin
        backends accept must expand to something rustc accepts"""
        viol, st = [], dict.fromkeys(stats, 0)
        for ri, recv in enumerate(["", "self, ", "&self, ", "&mut self, "]):
            d = toolrun.fresh_dir(toolrun.workdir("c09", "trait_recv_%d" % ri))
            src = os.path.join(d, "lib.rs")
            open(src, "w").write("#![allow(warnings)]\n#[diplomat::bridge]\nmod ffi {\n    pub trait VfTr {\n        fn probe(%sx: u8) -> u8;\n        fn other(&self, x: u8) -> u8;\n    }\n"
                                 "    #[diplomat::opaque]\n    pub struct VfOp(u8);\n    impl VfOp {\n        pub fn use_tr(t: impl VfTr, n: u8) -> u8 { t.other(n) }\n    }\n}\n" % recv)
            open(os.path.join(d, "config.toml"), "w").write(tooltier.STD_CONFIG["kotlin"])
            acc = []
            for tb in ("c", "kotlin"):
                rc, o, e = toolrun.run_tool(tb, src, os.path.join(d, tb), config_file=os.path.join(d, "config.toml"))
                kind, det = toolrun.classify_tool(rc, e)
                if kind == "ok":
                    acc.append(tb)
                elif kind != "lowering":
                    viol.append((tb, "lib.rs", "trait method with receiver `%s`: tool %s: %s" % (recv.strip(", ") or "none", kind, str(det)[:200])))
            if acc:
                rc, o, e = toolrun.rustc_lib(src, os.path.join(d, "lib.rlib"), crate_type="rlib")
                st["rustc"] += 1
                if rc != 0:
                    viol.append(("rustc", "lib.rs", "trait method with receiver `%s` is accepted by %s but its macro expansion does not type-check: %s" % (recv.strip(", ") or "none", acc, e[:600]), {"src": src}))
        return "trait_receivers", viol, st, [], []
    results += pmap(trait_receivers, [0])

    def compile_one(j):
        cmd, stat, (lang, f, prefix), viol, st, tmp = j
        rc, o, e = run(cmd, timeout=600)
        st[stat] += 1
        if tmp:
            try:
                os.remove(tmp)
            except OSError:
                pass
        if rc == -999:
            return
        if rc != 0:
            viol.append((lang, f, prefix + e[:4000]))
    pmap(compile_one, cjobs)
    for r in results:
        if r[0] in ("feature_tests", "example"):
            r[2]["fixed_corpus_files"] = r[2]["c_headers"] + r[2]["cpp_headers_x_std"] // 2 + r[2]["mjs"]

    for i, viol, st, inconc, shp in results:
        for k, v in st.items():
            stats[k] += v
        for m in inconc:
            chk.inconc(m)
        shapes.update(s for s in shp if not tooltier.spec.is_trivial_sig(s.split("|", 1)[1].split(":", 1)[1]))
        for v in viol:
            lang, f, msg = v[0], v[1], v[2]
            extra = v[3] if len(v) > 3 else {}
            key = None
            if extra.get("this_clash"):
                key = {"kind": "rustc", "signature": "parameter named `this` on a method taking self"}
            elif isinstance(i, int) and i % 7 == 3 and SIBLING.search(msg):
                key = {"kind": lang, "signature": "escaped keyword parameter collides with a sibling parameter spelled <keyword>_"}
            elif lang == "cpp" and isinstance(i, int) and i % 7 == 5 and "fn_traits" in msg and "vf_f39" in msg:
                key = {"kind": "cpp", "signature": "callback with an Option argument / Option return / primitive-slice argument: fn_traits cannot convert it"}
            elif lang == "cpp" and isinstance(i, int) and i % 7 == 5 and "fn_traits" in msg and "vf_f52" in msg:
                key = {"kind": "cpp", "signature": "callback with an owned-opaque argument or an Option<struct|enum> argument / return: fn_traits cannot convert it"}
            elif lang in ("c", "cpp") and isinstance(i, int) and i % 7 == 4 and re.search(r"char(32|16)_t", msg):
                key = {"kind": lang, "signature": "parameter named after a typedef the C headers use (char32_t / char16_t)"}
            elif lang == "js" and isinstance(i, int) and i % 7 == 6 and ("field named 'constructor'" in msg or "only have one constructor" in msg or "constructor may not be" in msg):
                key = {"kind": "js", "signature": "struct field or method named constructor"}
            elif lang in ("cpp", "c") and isinstance(i, int) and i % 5 == 4 and (KW_LINE.search(msg) or KW_MEMBER.search(msg)):
                key = {"kind": lang, "signature": "struct field named after a C/C++ keyword"}
            chk.violation("p%s_%s_%s" % (i, lang, re.sub(r"\W", "_", f)[:30]), "program p%s, %s %s: %s" % (i, lang, f, msg[:300]),
                          {"program": i, "lang": lang, "file": f, "message": msg, "dir": toolrun.workdir("c09"),
                           "lib_rs": open(extra["src"]).read()[:20000] if extra.get("src") else None}, key=key)
    chk.evaluations = stats["rustc"] + stats["c_headers"] + stats["cpp_headers_x_std"] + stats["cpp_all_orders"] + stats["mjs"]
    chk.distinct = shapes
    chk.rule = ("seeded valid modules (per backend profile) enriched with cyclic opaque/struct references, nested namespaces, renames, keyword-named parameters "
                "and fields, conditional attributes on impl blocks; every fourth program with plain #[cfg(..)] on methods and impl blocks (write methods preferred), its expansion type-checked with the feature off and on; a third of the programs also as a C-only variant with traits and `impl Trait` parameters; plus the repository's feature_tests and example bridges. Each accepted module: rustc on the "
                "macro expansion; gcc -std=c11 -fsyntax-only on every .h alone; g++ -std=c++17 and c++20 -fsyntax-only on every .hpp alone and all headers "
                "in shuffled orders; node --check on every .mjs; every #include/import target must exist and export the imported names. "
                "distinct_nontrivial = distinct (backend, method shape) pairs of accepted programs.")
    chk.extra = dict(stats, programs=nprog)
    chk.sample({"program": "p0/cpp", "checks": ["rustc lib.rs", "gcc -std=c11 -fsyntax-only <each .h>", "g++ -std=c++17|c++20 -fsyntax-only <each .hpp>", "all .hpp in 2 shuffled orders"]})
    chk.sample({"corpus": ["feature_tests", "example"], "files": stats["fixed_corpus_files"]})
    chk.assumptions = [".d.ts files are not type-checked (no tsc); Dart/Kotlin/Python outputs are not compiled (no toolchains)"]
    return chk.finish()
