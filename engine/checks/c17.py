"""C17 — configuration sources combine with the documented precedence:
config.toml < --config on the command line < #[diplomat::config] in the source; a language-scoped key
beats the shared key for that language only; kebab-case == snake_case in the file."""
import hashlib
import itertools
import os
import re

import common
import toolrun
import tooltier
from common import Check, pmap

BRIDGE = '''
#[diplomat::bridge]
pub mod ffi {
    use diplomat_runtime::DiplomatWrite;
    pub struct Pair { pub a: u8, pub b: u32, pub c: u16 }
    #[diplomat::opaque]
    pub struct Op(pub u8);
    impl Op {
        #[diplomat::demo(default_constructor)]
        pub fn mk() -> Box<Op> { Box::new(Op(0)) }
        pub fn take(&self, p: Pair, q: Pair) -> u32 { p.b + q.b }
        pub fn show(&self, w: &mut DiplomatWrite) { }
        #[diplomat::demo(generate)]
        pub fn shown(&self, w: &mut DiplomatWrite) { }
        %(cb)s
    }
}
'''
CB_METHOD = "pub fn with_cb(&self, f: impl Fn(&Op) -> u8) -> u8 { 0 }"

SOURCES = ["file", "cli", "attr"]          # increasing precedence


def toml_lit(v):
    if isinstance(v, bool):
        return "true" if v else "false"
    return '"%s"' % v


def build_inputs(d, backend, settings, kebab, with_cb=False, attr_style="quoted"):
    """settings: list of (source, key, value) with key possibly 'lang.key'. Returns (entry, config_file, cli list)."""
    top, tables = [], {}
    cli, attrs = [], []
    for src, key, val in settings:
        if src == "file":
            k = key.split(".")
            name = k[-1].replace("_", "-") if kebab else k[-1]
            if len(k) == 1:
                top.append("%s = %s" % (name, toml_lit(val)))
            else:
                tables.setdefault(k[0].replace("_", "-") if kebab else k[0], []).append("%s = %s" % (name, toml_lit(val)))
        elif src == "cli":
            cli.append("%s=%s" % (key, toml_lit(val) if isinstance(val, bool) else val))
        else:
            if isinstance(val, bool):
                attrs.append("#[diplomat::config(%s = %s)]" % (key, toml_lit(val)))
            elif attr_style == "quoted" or not re.match(r"^[A-Za-z_][A-Za-z0-9_]*$", str(val)):
                attrs.append('#[diplomat::config(%s = "%s")]' % (key, val))
            else:
                attrs.append("#[diplomat::config(%s = %s)]" % (key, val))
    cfg = "\n".join(top) + "\n" + "".join("[%s]\n%s\n" % (t, "\n".join(ls)) for t, ls in tables.items())
    os.makedirs(d, exist_ok=True)
    cfgp = os.path.join(d, "config.toml")
    open(cfgp, "w").write(cfg)
    # the attribute may sit on any top-level item of the entry file and may carry several pairs (book/src/config.md)
    host = ["struct", "mod", "impl", "joined"][sum(map(ord, os.path.basename(d))) % 4] if attrs else "struct"
    if host == "joined" and len(attrs) > 1:
        attrs = ["#[diplomat::config(%s)]" % ", ".join(a[len("#[diplomat::config("):-2] for a in attrs)]
    tail = {"struct": "struct VfCfg;\n", "joined": "struct VfCfg;\n", "mod": "mod vf_cfg_host {}\n", "impl": "impl VfCfg {}\nstruct VfCfg;\n"}[host] if attrs else ""
    src = "".join(a + "\n" for a in attrs) + tail + BRIDGE % {"cb": CB_METHOD if with_cb else ""}
    entry = os.path.join(d, "lib.rs")
    open(entry, "w").write("#![allow(warnings)]\n" + src)
    return entry, cfgp, cli


def digest_dir(outdir, skip=()):
    h = hashlib.sha1()
    for root, _, files in sorted(os.walk(outdir)):
        for fn in sorted(files):
            p = os.path.join(root, fn)
            rel = os.path.relpath(p, outdir)
            if any(s in rel for s in skip):
                continue
            h.update(rel.encode())
            h.update(open(p, "rb").read())
    return h.hexdigest()


# ---- observers: read the effective value back from a backend's output ------------------------------

def obs_kotlin(out):
    """-> (domain, lib_name) from the package directory and Native.load"""
    for root, _, files in os.walk(out):
        for fn in files:
            if fn == "Lib.kt":
                rel = os.path.relpath(root, os.path.join(out, "src", "main", "kotlin")).split(os.sep)
                txt = open(os.path.join(root, fn)).read()
                m = re.search(r'Native\.load\("((?:[^"\\]|\\.)*?)", libClass\)', txt)
                pk = re.search(r"^package (.*)$", txt, re.M)
                return {"domain": ".".join(rel[:-1]), "lib_name_dir": rel[-1], "lib_name_load": m.group(1) if m else None,
                        "package": pk.group(1).strip() if pk else None}
    return None


def obs_nanobind(out):
    for fn in os.listdir(out) if os.path.isdir(out) else []:
        if fn.endswith("_ext.cpp"):
            txt = open(os.path.join(out, fn)).read()
            m = re.search(r"NB_MODULE\(\s*([A-Za-z0-9_\"]+)", txt)
            return {"lib_name_file": fn[:-len("_ext.cpp")], "nb_module": m.group(1) if m else None}
    return None


def main(tier, seed):
    chk = Check("C17", tier, seed, "exploration")
    common.build_tool()
    base = toolrun.workdir("c17")
    toolrun.fresh_dir(base)
    cases = []          # (name, backend, settings, kebab, with_cb, expect-fn description)
    slots = [(s, sc) for s in SOURCES for sc in ("shared", "scoped")]

    def assignments():
        for mask in range(1, 1 << len(slots)):
            yield [slots[i] for i in range(len(slots)) if mask >> i & 1]

    def effective(assign):
        scoped = [s for s, sc in assign if sc == "scoped"]
        shared = [s for s, sc in assign if sc == "shared"]
        pool, scope = (scoped, "scoped") if scoped else (shared, "shared")
        return max(pool, key=SOURCES.index), scope

    n = 0
    # ---- lib_name for kotlin and nanobind: every subset of the 6 (source x scope) slots gets distinct values
    for backend in ("kotlin", "nanobind"):
        for assign in assignments():
            n += 1
            vals = {(s, sc): "lib%s%s%d" % (s[0], sc[1], n % 97) for s, sc in assign}
            settings = [(s, ("%s.lib_name" % backend if sc == "scoped" else "lib_name"), vals[(s, sc)]) for s, sc in assign]
            if backend == "kotlin":
                settings.append(("file", "kotlin.domain", "dev.vf"))
            es, esc = effective(assign)
            cases.append(dict(name="libname_%s_%d" % (backend, n), backend=backend, settings=settings, kebab=(n % 2 == 0), key="lib_name",
                              expect=vals[(es, esc)], why="%s/%s wins among %s" % (es, esc, sorted(assign)), attr_style=("quoted" if n % 3 else "bare")))
    # the *other* language's scoped key must not leak: kotlin.lib_name set, nanobind reads shared; and vice versa
    for backend, other in (("kotlin", "nanobind"), ("nanobind", "kotlin")):
        for s_other in SOURCES:
            for s_shared in SOURCES:
                n += 1
                settings = [(s_other, "%s.lib_name" % other, "leak%d" % n), (s_shared, "lib_name", "shared%d" % n)]
                if backend == "kotlin":
                    settings.append(("cli", "kotlin.domain", "dev.vf"))
                cases.append(dict(name="noleak_%s_%d" % (backend, n), backend=backend, settings=settings, kebab=(n % 2 == 0), key="lib_name",
                                  expect="shared%d" % n, why="%s.lib_name must not affect %s" % (other, backend), attr_style="quoted"))
    # ---- kotlin.domain: every non-empty subset of sources
    for r in range(1, 4):
        for subset in itertools.combinations(SOURCES, r):
            n += 1
            vals = {s: "org.%s%d.x" % (s, n) for s in subset}
            settings = [(s, "kotlin.domain", vals[s]) for s in subset] + [("file", "lib_name", "vflib")]
            cases.append(dict(name="domain_%d" % n, backend="kotlin", settings=settings, kebab=(n % 2 == 1), key="domain",
                              expect=vals[max(subset, key=SOURCES.index)], why="highest of %s" % (subset,), attr_style="quoted"))
    # ---- unsafe_references_in_callbacks: boolean, shared and scoped, observed through acceptance of &Opaque in a callback
    for backend in ("kotlin", "nanobind", "c", "cpp"):
        scopes = ("shared", "scoped") if backend in ("kotlin", "nanobind") else ("shared",)
        bslots = [(s, sc) for s in SOURCES for sc in scopes]
        for mask in range(0, 1 << len(bslots)):
            assign = [bslots[i] for i in range(len(bslots)) if mask >> i & 1]
            for flip in (0, 1):
                n += 1
                vals = {}
                for j, (s, sc) in enumerate(assign):
                    vals[(s, sc)] = bool((j + flip) % 2)
                settings = [(s, ("%s.unsafe_references_in_callbacks" % backend if sc == "scoped" else "unsafe_references_in_callbacks"), vals[(s, sc)]) for s, sc in assign]
                settings += [("file", "lib_name", "vflib")] + ([("file", "kotlin.domain", "dev.vf")] if backend == "kotlin" else [])
                if assign:
                    es, esc = effective(assign)
                    exp = vals[(es, esc)]
                else:
                    exp = False
                cases.append(dict(name="unsaferefs_%s_%d" % (backend, n), backend=backend, settings=settings, kebab=(n % 2 == 0),
                                  key="unsafe_references_in_callbacks", expect=exp, with_cb=True, why="effective of %s" % (sorted(assign),), attr_style="quoted"))
    # ---- js.abi: legacy/spec from every subset of sources, observed as code shape (digest equals the single-source reference)
    for r in range(1, 4):
        for subset in itertools.combinations(SOURCES, r):
            for pattern in itertools.product(["legacy", "spec"], repeat=len(subset)):
                n += 1
                vals = dict(zip(subset, pattern))
                settings = [(s, "js.abi", vals[s]) for s in subset]
                cases.append(dict(name="jsabi_%d" % n, backend="js", settings=settings, kebab=False, key="js.abi",
                                  expect=vals[max(subset, key=SOURCES.index)], why="highest of %s" % (vals,), attr_style="quoted"))
    # ---- kotlin.use_finalizers_not_cleaners and demo_gen.*: code-shape keys
    for key, backend, domain_vals in (("kotlin.use_finalizers_not_cleaners", "kotlin", [True, False]),
                                      ("demo_gen.explicit_generation", "demo_gen", [True, False]),
                                      ("demo_gen.hide_default_renderer", "demo_gen", [True, False]),
                                      ("demo_gen.module_name", "demo_gen", ["modA", "modB"]),
                                      ("demo_gen.relative_js_path", "demo_gen", ["../pathA", "../pathB"])):
        for r in range(1, 4):
            for subset in itertools.combinations(SOURCES, r):
                for pattern in itertools.product(domain_vals, repeat=len(subset)):
                    n += 1
                    vals = dict(zip(subset, pattern))
                    settings = [(s, key, vals[s]) for s in subset]
                    if backend == "kotlin":
                        settings += [("file", "lib_name", "vflib"), ("file", "kotlin.domain", "dev.vf")]
                    cases.append(dict(name="%s_%d" % (key.replace(".", "_"), n), backend=backend, settings=settings, kebab=(n % 2 == 0), key=key,
                                      expect=vals[max(subset, key=SOURCES.index)], why="highest of %s" % (vals,), attr_style="quoted",
                                      domain_vals=domain_vals))

    # reference digests for code-shape keys: the same key set through the config file only
    refs = {}

    def ref_digest(backend, key, val):
        k = (backend, key, val)
        if k in refs:
            return refs[k]
        d = os.path.join(base, "ref_%s_%s_%s" % (backend, key.replace(".", "_"), re.sub(r"\W", "_", str(val))))
        settings = [("file", key, val)]
        if backend == "kotlin":
            settings += [("file", "lib_name", "vflib"), ("file", "kotlin.domain", "dev.vf")]
        entry, cfgp, cli = build_inputs(d, backend, settings, False)
        rc, o, e = toolrun.run_tool(backend, entry, os.path.join(d, "out"), config_file=cfgp, configs=cli)
        refs[k] = digest_dir(os.path.join(d, "out")) if rc == 0 else None
        return refs[k]

    for c in cases:
        if "domain_vals" in c or c["key"] == "js.abi":
            for v in c.get("domain_vals", ["legacy", "spec"]):
                ref_digest(c["backend"], c["key"], v)
    for (b, k, v), dg in refs.items():
        if dg is None:
            chk.inconc("reference run for %s %s=%s failed" % (b, k, v))
    for (b, k) in {(b, k) for (b, k, v) in refs}:
        ds = [dg for (b2, k2, v), dg in refs.items() if (b2, k2) == (b, k)]
        if len(set(ds)) != len(ds):
            chk.inconc("%s: the values of %s are not distinguishable in the output (observer blind)" % (b, k))

    def one(c):
        d = os.path.join(base, c["name"])
        entry, cfgp, cli = build_inputs(d, c["backend"], c["settings"], c["kebab"], c.get("with_cb", False), c["attr_style"])
        # every fourth case runs the backend under its legacy name (`kotlin2`, `nanobind2`, `js2` ..: the trailing 2 is stripped), which
        # must select the same language-scoped keys (seed C17-j: the override lookup used the unstripped name)
        run_as = c["backend"] + ("2" if sum(map(ord, c["name"])) % 4 == 0 else "")
        rc, o, e = toolrun.run_tool(run_as, entry, os.path.join(d, "out"), config_file=cfgp, configs=cli)
        kind, det = toolrun.classify_tool(rc, e)
        out = os.path.join(d, "out")
        observed = None
        if c["key"] == "unsafe_references_in_callbacks":
            if kind == "ok":
                observed = True
            elif kind == "lowering" and any("Callbacks cannot take references" in m for _, m in det):
                observed = False
            else:
                observed = "tool %s: %s" % (kind, (det if isinstance(det, str) else str(det))[:200])
        elif kind != "ok":
            observed = "tool %s: %s" % (kind, str(det)[:200])
        elif c["key"] == "lib_name":
            if c["backend"] == "kotlin":
                ob = obs_kotlin(out)
                observed = ob["lib_name_load"] if ob and ob["lib_name_load"] == ob["lib_name_dir"] else ob
            else:
                ob = obs_nanobind(out)
                observed = ob["lib_name_file"] if ob else None
        elif c["key"] == "domain":
            ob = obs_kotlin(out)
            observed = ob["domain"] if ob else None
        else:
            dg = digest_dir(out)
            cands = [v for v in c.get("domain_vals", ["legacy", "spec"]) if refs.get((c["backend"], c["key"], v)) == dg]
            observed = cands[0] if len(cands) == 1 else "output matches no single-source reference (%s)" % cands
        return c, observed, (e[-400:] if kind != "ok" else "")

    results = pmap(one, cases)
    # ---- two *different* keys given in different sources do not disturb each other: the output must equal the run that has both in the file
    pairs = [("demo_gen", ("demo_gen.module_name", "modA"), ("demo_gen.relative_js_path", "../pathA")),
             ("demo_gen", ("demo_gen.module_name", "modB"), ("demo_gen.explicit_generation", True)),
             ("demo_gen", ("demo_gen.relative_js_path", "../pathB"), ("demo_gen.explicit_generation", True)),
             ("kotlin", ("lib_name", "libx"), ("kotlin.domain", "org.pair.x")),
             ("kotlin", ("kotlin.domain", "org.pair.y"), ("kotlin.use_finalizers_not_cleaners", True)),
             ("kotlin", ("kotlin.lib_name", "liby"), ("kotlin.use_finalizers_not_cleaners", True)),
             ("nanobind", ("lib_name", "libz"), ("nanobind.unsafe_references_in_callbacks", True))]
    xcases = []
    for backend, (k1, v1), (k2, v2) in pairs:
        extra = []
        if backend == "kotlin":
            if not any(k.endswith("lib_name") for k in (k1, k2)):
                extra.append(("file", "lib_name", "vflib"))
            if not any(k.endswith("domain") for k in (k1, k2)):
                extra.append(("file", "kotlin.domain", "dev.vf"))
        for s1 in SOURCES:
            for s2 in SOURCES:
                xcases.append(dict(name="pair_%s_%s_%s_%s_%s" % (backend, k1.split(".")[-1], k2.split(".")[-1], s1, s2), backend=backend,
                                   settings=[(s1, k1, v1), (s2, k2, v2)] + extra, ref=[("file", k1, v1), ("file", k2, v2)] + extra, keys=(k1, k2), sources=(s1, s2)))

    def xone(c):
        outs = []
        for tag, settings in (("run", c["settings"]), ("ref", c["ref"])):
            d = os.path.join(base, c["name"], tag)
            entry, cfgp, cli = build_inputs(d, c["backend"], settings, False, with_cb=(c["backend"] == "nanobind"))
            rc, o, e = toolrun.run_tool(c["backend"], entry, os.path.join(d, "out"), config_file=cfgp, configs=cli)
            outs.append((rc, digest_dir(os.path.join(d, "out")) if rc == 0 else None, e[-300:]))
        return c, outs
    xres = pmap(xone, xcases)
    for c, ((rc1, d1, e1), (rc2, d2, e2)) in xres:
        if rc2 != 0:
            chk.inconc("pair reference %s failed: %s" % (c["name"], e2))
        elif rc1 != 0 or d1 != d2:
            chk.violation(c["name"], "%s: %s from %s together with %s from %s does not give the output of both keys in config.toml (%s)" % (
                c["backend"], c["keys"][0], c["sources"][0], c["keys"][1], c["sources"][1], "tool failed: " + e1 if rc1 != 0 else "outputs differ"),
                {"case": {k: v for k, v in c.items()}, "dir": os.path.join(base, c["name"])})
    # ---- two different *shared* settings scoped to one language (seed C17-g: the second scoped key of a language replaced the first).
    # Both effects are read back directly (the both-in-the-file reference above goes through the same code and would agree with a
    # wrong run): the scoped lib_name must be in the output *and* the scoped unsafe_references_in_callbacks must decide acceptance.
    dcases = []
    for backend in ("kotlin", "nanobind"):
        for s1 in SOURCES:
            for s2 in SOURCES:
                for first in (0, 1):
                    for flag in (True, False):
                        a = (s1, "%s.lib_name" % backend, "scoped%s%s" % (s1, s2))
                        b = (s2, "%s.unsafe_references_in_callbacks" % backend, flag)
                        settings = ([a, b] if first == 0 else [b, a]) + [("file", "lib_name", "sharedlib"), ("cli", "unsafe_references_in_callbacks", not flag)]
                        if backend == "kotlin":
                            settings.append(("file", "kotlin.domain", "dev.vf"))
                        dcases.append(dict(name="scoped2_%s_%s_%s_%d_%d" % (backend, s1, s2, first, flag), backend=backend, settings=settings, flag=flag,
                                           lib=a[2], sources=(s1, s2)))

    def done(c):
        d = os.path.join(base, c["name"])
        entry, cfgp, cli = build_inputs(d, c["backend"], c["settings"], False, with_cb=True)
        rc, o, e = toolrun.run_tool(c["backend"], entry, os.path.join(d, "out"), config_file=cfgp, configs=cli)
        kind, det = toolrun.classify_tool(rc, e)
        if kind == "lowering" and any("Callbacks cannot take references" in m for _, m in det):
            return c, False, None, e[-300:]
        if kind != "ok":
            return c, "tool %s" % kind, None, e[-300:]
        out = os.path.join(d, "out")
        if c["backend"] == "kotlin":
            ob = obs_kotlin(out)
            lib = ob["lib_name_load"] if ob and ob["lib_name_load"] == ob["lib_name_dir"] else ob
        else:
            ob = obs_nanobind(out)
            lib = ob["lib_name_file"] if ob else None
        return c, True, lib, ""
    dres = pmap(done, dcases)
    for c, accepted, lib, err in dres:
        if accepted != c["flag"]:
            chk.violation(c["name"], "%s: %s.unsafe_references_in_callbacks=%s (from %s) next to %s.lib_name (from %s): references in callbacks %s" % (
                c["backend"], c["backend"], c["flag"], c["sources"][1], c["backend"], c["sources"][0],
                "rejected" if accepted is False else "accepted" if accepted is True else accepted), {"case": c, "stderr": err, "dir": os.path.join(base, c["name"])})
        elif accepted is True and lib != c["lib"]:
            chk.violation(c["name"], "%s: %s.lib_name=%s (from %s) next to %s.unsafe_references_in_callbacks (from %s): the output shows lib name %r" % (
                c["backend"], c["backend"], c["lib"], c["sources"][0], c["backend"], c["sources"][1], lib), {"case": c, "dir": os.path.join(base, c["name"])})
    keys = set()
    for c, _, _, _ in dres:
        keys.add((c["backend"], "scoped lib_name + scoped unsafe refs", c["sources"], c["flag"]))
    for c, _ in xres:
        keys.add((c["backend"], c["keys"], c["sources"]))
    for c, observed, err in results:
        keys.add((c["backend"], c["key"], tuple(sorted((s, k) for s, k, _ in c["settings"] if k.endswith(c["key"].split(".")[-1])))))
        if observed != c["expect"]:
            chk.violation(c["name"], "%s %s: expected effective value %r (%s) but the output shows %r" % (c["backend"], c["key"], c["expect"], c["why"], observed),
                          {"case": {k: v for k, v in c.items()}, "observed": observed, "stderr": err, "dir": os.path.join(base, c["name"])})
    chk.evaluations = len(results) + len(refs) + 2 * len(xres) + len(dres)
    chk.distinct = keys
    chk.exhaustive = True
    chk.rule = ("for lib_name (kotlin, nanobind): every non-empty subset of the six (source in file/cli/attribute) x (shared/language-scoped) slots with "
                "distinct values (63 per backend) + cross-language no-leak cases; kotlin.domain, js.abi, kotlin.use_finalizers_not_cleaners and demo_gen.* : "
                "every subset of sources x every value pattern; unsafe_references_in_callbacks: every subset of slots x two boolean patterns on "
                "kotlin/nanobind/c/cpp; file keys alternate kebab/snake case, attribute values alternate quoted/bare. Effective value read back from "
                "the output (package path, Native.load, <lib>_ext.cpp, acceptance of &Opaque in callbacks, digest equal to a single-source reference). "
                "Pairs of different keys (demo_gen.module_name / relative_js_path / explicit_generation, kotlin lib_name / domain / finalizers, nanobind lib_name / "
                "unsafe refs) in every ordered pair of sources must give the output of both keys in config.toml; <lang>.lib_name next to "
                "<lang>.unsafe_references_in_callbacks (two shared settings scoped to one language, every ordered pair of sources, both orders, both "
                "flag values, opposite shared values present) with both effects read back directly. "
                "distinct_nontrivial = distinct (backend, key, set of (source, spelled key)) combinations.")
    chk.extra = {"cases": len(cases), "reference_runs": len(refs), "keys": sorted({c["key"] for c in cases})}
    for c, observed, err in results[:2] + results[200:201]:
        chk.sample({"backend": c["backend"], "settings": [list(s) for s in c["settings"]], "kebab_file_keys": c["kebab"], "expected": c["expect"], "observed": observed})
    chk.assumptions = ["`#[diplomat::config]` values are written as the book writes them (quoted strings, bare booleans)"]
    return chk.finish()
