"""C07 — Dart (dart:ffi) and Kotlin (JNA) native declarations match each function's and struct's C ABI.
Translation validation per generated program: the reference ABI descriptor computed from the Spec is first validated
against rustc (type-ascription probes inside the bridge module: `const _: extern "C" fn(..) -> .. = <abi_name>;`),
then compared with the descriptors read from the emitted @ffi.Native / ffi.Struct and JNA interface / Structure text."""
import os
import random

import abi_model as am
import common
import emit_rust
import spec
import toolrun
import tooltier
from common import Check, pmap


def ffi_ty(prog, t, lt, ret=False):
    k = t[0]
    if ret and k == "opt" and t[1][0] in ("str", "slice") and t[1][-1] == "std":
        # observation (not a violation by itself): for Option<&str>/Option<&[T]> *returns* the macro puts the Rust fat reference
        # itself into the repr(C) DiplomatResult (DiplomatResult<&'a str, ()>); C declares the view struct, same layout in practice
        i = t[1]
        l = "'%s" % i[3 if i[0] == "slice" else 2] if i[3 if i[0] == "slice" else 2] else "'_"
        inner = ("&%s %s[%s]" % (l, "mut " if i[2] else "", i[1])) if i[0] == "slice" else ("&%s %s" % (l, {"utf8": "str", "ustr": "[u8]", "u16": "[u16]"}[i[1]]))
        return "diplomat_runtime::DiplomatResult<%s, ()>" % inner
    R = "diplomat_runtime::"
    def L(x):
        return "'%s" % x if x else "'_"
    if k == "prim":
        return {"DiplomatChar": "u32", "DiplomatByte": "u8"}.get(t[1], t[1])
    if k == "enum":
        return t[1]
    if k == "struct":
        s = prog.find(t[1])
        return t[1] + ("<%s>" % ", ".join(L(lt) for _ in s.lifetimes) if s.lifetimes else "")
    if k == "oref":
        inner = "&%s %s%s" % (L(t[3]), "mut " if t[2] else "", t[1])
        return "Option<%s>" % inner if t[4] else inner
    if k == "obox":
        return "Option<Box<%s>>" % t[1] if t[2] else "Box<%s>" % t[1]
    if k == "opt":
        return "%sDiplomatOption<%s>" % (R, ffi_ty(prog, t[1], lt))
    if k == "result":
        return "%sDiplomatResult<%s, %s>" % (R, ffi_ty(prog, t[1], lt), ffi_ty(prog, t[2], lt))
    if k == "slice":
        p = {"DiplomatByte": "u8"}.get(t[1], t[1])
        return "%s%s<%s, %s>" % (R, "DiplomatSliceMut" if t[2] else "DiplomatSlice", L(t[3]), p)
    if k == "oslice":
        return "%sDiplomatOwnedSlice<%s>" % (R, t[1])
    if k == "str":
        return "%s%s<%s>" % (R, {"utf8": "DiplomatUtf8StrSlice", "ustr": "DiplomatStrSlice", "u16": "DiplomatStr16Slice"}[t[1]], L(t[2]))
    if k == "ostr":
        return R + {"utf8": "DiplomatOwnedUTF8StrSlice", "ustr": "DiplomatOwnedStrSlice", "u16": "DiplomatOwnedStr16Slice"}[t[1]]
    if k == "strs":
        return "%sDiplomatSlice<'_, %s%s<'_>>" % (R, R, {"utf8": "DiplomatUtf8StrSlice", "ustr": "DiplomatStrSlice", "u16": "DiplomatStr16Slice"}[t[1]])
    if k == "cb":
        return "%sDiplomatCallback<%s>" % (R, ffi_ty(prog, t[2], lt))
    if k == "tr":
        return "DiplomatTraitStruct_" + t[1]
    if k == "write":
        return "&mut %sDiplomatWrite" % R
    if k == "ordering":
        return "i8"
    if k == "unit":
        return "()"
    raise ValueError(t)


def probes(prog):
    """private module inside the bridge module ascribing the model's opinion of every generated extern fn's type"""
    out = ["    #[allow(warnings)]\n    mod vf_probes {\n        use super::*;\n"]
    for mod in prog.modules:
        for t in mod.items:
            for m in t.methods:
                lt = m.lifetimes[0] if m.lifetimes else None
                ps = []
                if m.self_kind:
                    if t.kind == "opaque":
                        ps.append("&%s %s%s" % ("'%s" % m.self_kind[1] if m.self_kind[1] else "'_", "mut " if m.self_kind[0] == "mut" else "", t.name))
                    else:
                        ps.append(t.name)
                for pn, pt in m.params:
                    ps.append(ffi_ty(prog, pt, lt))
                ret = "" if m.ret == ("unit",) else " -> " + ffi_ty(prog, m.ret, lt, ret=True)
                binder = "for<%s> " % ", ".join("'" + l for l in m.lifetimes) if m.lifetimes else ""
                out.append("        const _: %sextern \"C\" fn(%s)%s = %s;\n" % (binder, ", ".join(ps), ret, m.abi_name))
            if t.kind == "opaque":
                out.append("        const _: extern \"C\" fn(Box<%s>) = %s_destroy;\n" % (t.name, t.name))
    out.append("    }\n")
    return "".join(out)


# user types named like the carrier types of dart:ffi / JNA, used in the same positions as the like-named primitive:
# helper classes that the backends derive from type names (Dart `_Result<Ok><Err>`, Kotlin `Option<T>` / `Result<T,E>` mirrors)
# must stay distinct
NATIVE_NAMES = [("Size", "usize"), ("Bool", "bool"), ("Double", "f64"), ("Float", "f32"), ("Int32", "i32"), ("Uint8", "u8"), ("Int64", "i64"),
                ("Uint16", "u16"), ("Int", "i32"), ("Long", "i64"), ("Byte", "i8"), ("Short", "i16"), ("IntPtr", "isize"), ("Void", "u8")]


def native_named_types(prog, rng, sup):
    hosts = [t for t in prog.types() if t.kind == "opaque" and not t.lifetimes]
    if not hosts:
        return
    host = hosts[0]
    mod = [m for m in prog.modules if host in m.items][0]
    taken = {t.name for t in prog.types()}
    for name, prim in rng.sample(NATIVE_NAMES, 2):
        if name in taken:
            continue
        if rng.random() < 0.6:
            t = spec.Struct(name, [("w", ("prim", rng.choice(["u64", "f64", "i32"]))), ("h", ("prim", rng.choice(["u64", "u8", "f32"]))), ("d", ("prim", "u16"))])
        else:
            t = spec.Enum(name, [("Va", None), ("Vb", None), ("Vc", 7)])
        mod.items.append(t)
        kind = t.kind
        k = len(host.methods)
        arms = [(("prim", prim), (kind, name))]
        for a, bty in arms:
            for j, inner in enumerate((a, bty)):
                m1 = spec.Method("vfn%d_%d_r" % (k, j), ("ref", None), [], ("result", inner, ("unit",), "std"))
                m1.owner = host
                host.methods.append(m1)
                if sup["option"]:
                    m2 = spec.Method("vfn%d_%d_o" % (k, j), ("ref", None), [], ("opt", inner, "std"))
                    m2.owner = host
                    host.methods.append(m2)
                m3 = spec.Method("vfn%d_%d_e" % (k, j), ("ref", None), [], ("result", ("prim", "u8"), inner, "std"))
                m3.owner = host
                if inner[0] != "prim":           # primitive error types are a separate known finding for some backends
                    host.methods.append(m3)
    tooltier.friendly_attrs(prog)
    emit_rust.assign_abi_names(prog)


def main(tier, seed):
    chk = Check("C07", tier, seed, "translation_validation")
    thorough = tier == "thorough"
    nprog = 500 if thorough else 60
    common.build_tool()
    toolrun.anchor()
    stats = {"functions_compared": 0, "structs_compared": 0, "rustc_probe_crates": 0, "rustc_probes": 0}
    shapes = set()

    def one(job):
        i, b = job
        # Kotlin also declares traits natively (a vtable Structure and one JNA Callback interface per method)
        prog = tooltier.backend_program(b, seed, i, avoid_known=True, size=("large" if i % 4 == 0 else "small"), salt="c07",
                                        extra_profile=(dict(traits=True, trait_prob=0.3) if (b == "kotlin" and i % 2 == 0) else None))
        if i % 3 == 2:
            native_named_types(prog, random.Random("c07n/%s/%s/%s" % (seed, i, b)), tooltier.profiles.support(b))
        if i % 4 == 1:
            tooltier.underscore_fields(prog, random.Random("c07u/%s/%s/%s" % (seed, i, b)))
        if i % 3 != 2:
            # special-method attributes (accessors incl. setters that report success, constructors, operators, iterators ..) change how a
            # method is *presented*, never the C ABI of the function behind it (seed C07-g)
            if tooltier.add_special_methods(prog, random.Random("c07s/%s/%s/%s" % (seed, i, b)), b):
                tooltier.friendly_attrs(prog)
                emit_rust.assign_abi_names(prog)
        d = toolrun.fresh_dir(toolrun.workdir("c07", "p%d_%s" % (i, b)))
        res = dict(job=job, viol=[], inconc=None, nf=0, ns=0, probes=0, sigs=[])
        # --- the reference must be what rustc compiled: ascription probes in a second copy of the crate
        probe_prog_src = None
        prog.modules[0].extra_src = probes(prog)
        pdir = os.path.join(d, "probe")
        os.makedirs(pdir)
        psrc, _ = tooltier.write_program(prog, pdir, None)
        res["probes"] = prog.modules[0].extra_src.count("const _")
        rc, o, e = toolrun.rustc_lib(psrc, os.path.join(pdir, "lib.rlib"), crate_type="rlib")
        prog.modules[0].extra_src = ""
        if rc != 0:
            res["inconc"] = "ABI model out of sync with the macro (probe rejected by rustc): " + e[:400].replace("\n", " ")
            return res
        os.remove(os.path.join(pdir, "lib.rlib"))
        src, cfg = tooltier.write_program(prog, d, tooltier.STD_CONFIG[b])
        rc, o, e = toolrun.run_tool(b, src, os.path.join(d, "out"), config_file=cfg)
        kind, det = toolrun.classify_tool(rc, e)
        if kind != "ok":
            res["inconc"] = "tool %s: %s" % (kind, str(det)[:200])
            return res
        rd = am.DartReader(os.path.join(d, "out")) if b == "dart" else am.KotlinReader(os.path.join(d, "out"))
        for t, m in prog.methods():
            exp_p, exp_r = am.method_desc(prog, t, m)
            if any(pt == ("write",) for _, pt in m.params):
                pass
            got = rd.function(m.abi_name)
            res["nf"] += 1
            res["sigs"].append(spec.method_sig(t, m))
            where = "%s (%s::%s)" % (m.abi_name, t.name, m.name)
            if got is None:
                res["viol"].append("%s: no native declaration found" % where)
                continue
            gp, gr = got
            if len(gp) != len(exp_p):
                res["viol"].append("%s: %d native parameters declared, the C ABI has %d  [declared %s | ABI %s]" % (
                    where, len(gp), len(exp_p), [am.show(x) for x in gp], [am.show(x) for x in exp_p]))
                continue
            for k, (a, g) in enumerate(zip(exp_p, gp)):
                if not am.compatible(a, g, b):
                    leaves = am.mismatches(a, g, b)
                    word64 = [(("isize",), ("i", 64, True)), (("usize",), ("i", 64, False))]
                    if leaves and all("(" in pth and (e_, o_) in word64 for pth, e_, o_ in leaves):
                        # every disagreement is a pointer-sized integer inside a callback / trait-method signature declared as a fixed 64-bit one
                        res.setdefault("known", []).append(("cbword", "%s: parameter %d: %s" % (where, k, ", ".join("%s ABI %s declared %s" % (p_, am.show(e_), am.show(o_)) for p_, e_, o_ in leaves))))
                        continue
                    res["viol"].append("%s: parameter %d declared as %s, the C ABI has %s" % (where, k, am.show(g), am.show(a)))
            if not am.compatible(exp_r, gr, b):
                res["viol"].append("%s: return declared as %s, the C ABI has %s" % (where, am.show(gr), am.show(exp_r)))
        for t in prog.types():
            if t.kind in ("struct", "outstruct"):
                got = rd.struct(t.name)
                res["ns"] += 1
                exp = am.expected(prog, ("struct", t.name))
                if got is None:
                    res["viol"].append("struct %s: no native mirror found" % t.name)
                elif not am.compatible(exp, got, b, True):
                    res["viol"].append("struct %s: mirror is %s, repr(C) layout is %s" % (t.name, am.show(got), am.show(exp)))
            if t.kind == "opaque":
                got = rd.function("%s_destroy" % t.name)
                res["nf"] += 1
                if got is None or len(got[0]) != 1 or not am.compatible(("ptr",), got[0][0], b) or not am.compatible(("void",), got[1], b):
                    res["viol"].append("%s_destroy: declared as %s" % (t.name, got))
        res["src"] = src
        return res

    jobs = [(i, b) for i in range(nprog) for b in ("dart", "kotlin")]
    results = pmap(one, jobs)
    # directed probe (known finding F48): a trait method disabled for the backend still has its slot in the vtable Rust compiled
    pd = toolrun.fresh_dir(toolrun.workdir("c07", "probe_disabled_trait_method"))
    open(os.path.join(pd, "lib.rs"), "w").write(
        "#[diplomat::bridge]\nmod ffi {\n    pub trait VfTr {\n        fn m0(&self, a: u8) -> u32;\n        #[diplomat::attr(kotlin, disable)]\n        fn m1(&self);\n"
        "        fn m2(&self, b: i16) -> i16;\n    }\n    #[diplomat::opaque]\n    pub struct VfOp(u8);\n    impl VfOp {\n        pub fn use_tr(t: impl VfTr, n: i32) -> i32 { t.m1(); n }\n    }\n}\n")
    open(os.path.join(pd, "config.toml"), "w").write(tooltier.STD_CONFIG["kotlin"])
    rc, o, e = toolrun.run_tool("kotlin", os.path.join(pd, "lib.rs"), os.path.join(pd, "out"), config_file=os.path.join(pd, "config.toml"))
    if rc == 0:
        rd = am.KotlinReader(os.path.join(pd, "out"))
        vt = rd.classes.get("DiplomatTrait_VfTr_VTable_Native")
        names = [n for n, _ in vt[1]] if vt else None
        want = ["destructor", "size", "alignment", "run_m0_callback", "run_m1_callback", "run_m2_callback"]
        stats["structs_compared"] += 1
        if names != want:
            chk.violation("probe_disabled_trait_method", "kotlin: vtable of a trait with a method disabled for Kotlin declares %s, the vtable Rust compiled is %s" % (names, want),
                          {"lib_rs": open(os.path.join(pd, "lib.rs")).read(), "declared": names, "abi": want},
                          key={"backend": "kotlin", "signature": "trait method disabled for the backend is dropped from the vtable Structure"})
    else:
        chk.inconc("disabled-trait-method probe: tool failed: " + e[-200:])
    nskip = 0
    disagreements = 0
    for r in results:
        i, b = r["job"]
        stats["rustc_probe_crates"] += 1
        stats["rustc_probes"] += r["probes"]
        if r["inconc"]:
            nskip += 1
            chk.inconc("p%d/%s: %s" % (i, b, r["inconc"][:300]))
            continue
        stats["functions_compared"] += r["nf"]
        stats["structs_compared"] += r["ns"]
        shapes.update("%s|%s" % (b, s) for s in r["sigs"] if not spec.is_trivial_sig(s.split(":", 1)[1]))
        for kind_, msg in r.get("known", [])[:2]:
            chk.violation("p%d_%s_cbword" % (i, b), "program p%d backend %s: %s" % (i, b, msg), {"backend": b, "lib_rs": open(r["src"]).read()[:20000]},
                          key={"backend": b, "signature": "isize/usize inside a callback or trait-method signature declared as Long/ULong"})
        for msg in r["viol"][:3]:
            disagreements += 1
            chk.violation("p%d_%s" % (i, b), "program p%d backend %s: %s" % (i, b, msg),
                          {"backend": b, "all": r["viol"][:20], "lib_rs": open(r["src"]).read()[:20000], "dir": toolrun.workdir("c07", "p%d_%s" % (i, b))})
    chk.evaluations = stats["functions_compared"] + stats["structs_compared"]
    chk.distinct = shapes
    chk.rule = ("per backend (dart, kotlin), seeded modules inside the backend's feature profile; every exported function's parameter list and return and every "
                "struct mirror compared with the reference descriptor (arity, order, integer width/signedness, float kind, pointer vs by-value, record shapes "
                "of result/option/slice/struct, field order). Allowances stated up front: Kotlin Int for DiplomatChar, Kotlin Boolean/Byte for bool, enum = i32. "
                "distinct_nontrivial = distinct (backend, method shape) pairs compared.")
    chk.extra = dict(stats, programs=len(results), skipped=nskip, disagreements_checked=disagreements)
    chk.extra["programs"] = len(results) - nskip
    ok = [r for r in results if not r["inconc"]][:1]
    for r in ok:
        chk.sample({"backend": r["job"][1], "function_shapes": r["sigs"][:3], "probe_example": "const _: extern \"C\" fn(&Op1, DiplomatSlice<u8>) -> DiplomatResult<u8, ()> = Op1_m0;"})
    chk.assumptions = ["monitor over generated text: how dart:ffi / JNA marshal a correctly declared type is out of reach (no Dart/Kotlin toolchain)",
                       "x86-64: usize/isize must be declared pointer-sized (ffi.Size/ffi.IntPtr, FFISizet/FFIIsizet), not as fixed 64-bit integers"]
    return chk.finish("more than half of the programs were skipped" if nskip * 2 > len(results) else None)
