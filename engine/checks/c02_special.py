"""C02, special methods: the C++ backend turns methods marked comparison / add..div / *_assign / indexer / iterable / iterator into
operators and begin()/end(). A bridge with real integer semantics (wrapping i32 arithmetic, lexicographic pairs, decimal digits) is
built with the real macro; a C++ program checks every generated operator against the same semantics computed in C++, over boundary
values, for an opaque and a struct receiver, with and without namespace / rename, under C++17 and C++20, with ASan+UBSan."""
import os
import random

import api
import toolrun
from common import run

BRIDGE = '''#![allow(warnings)]
#[diplomat::bridge]
@MODATTR@
pub mod ffi {
    #[diplomat::opaque]
    @NUMATTR@
    pub struct Num(pub i32);
    impl Num {
        pub fn make(v: i32) -> Box<Num> { Box::new(Num(v)) }
        pub fn value(&self) -> i32 { self.0 }
        #[diplomat::attr(auto, comparison)]
        pub fn cmp(&self, other: &Num) -> core::cmp::Ordering { self.0.cmp(&other.0) }
        #[diplomat::attr(auto, add)]
        pub fn add(&self, o: &Num) -> Box<Num> { Box::new(Num(self.0.wrapping_add(o.0))) }
        #[diplomat::attr(auto, sub)]
        pub fn sub(&self, o: &Num) -> Box<Num> { Box::new(Num(self.0.wrapping_sub(o.0))) }
        #[diplomat::attr(auto, mul)]
        pub fn mul(&self, o: &Num) -> Box<Num> { Box::new(Num(self.0.wrapping_mul(o.0))) }
        #[diplomat::attr(auto, div)]
        pub fn div(&self, o: &Num) -> Box<Num> { Box::new(Num(if o.0 == 0 { 0 } else { self.0.wrapping_div(o.0) })) }
        #[diplomat::attr(auto, add_assign)]
        pub fn add_assign(&mut self, o: &Num) { self.0 = self.0.wrapping_add(o.0) }
        #[diplomat::attr(auto, sub_assign)]
        pub fn sub_assign(&mut self, o: &Num) { self.0 = self.0.wrapping_sub(o.0) }
        #[diplomat::attr(auto, mul_assign)]
        pub fn mul_assign(&mut self, o: &Num) { self.0 = self.0.wrapping_mul(o.0) }
        #[diplomat::attr(auto, div_assign)]
        pub fn div_assign(&mut self, o: &Num) { self.0 = if o.0 == 0 { 0 } else { self.0.wrapping_div(o.0) } }
        #[diplomat::attr(auto, indexer)]
        pub fn digit(&self, i: usize) -> Option<u8> { self.0.unsigned_abs().to_string().as_bytes().get(i).map(|b| b - b'0') }
        #[diplomat::attr(auto, iterable)]
        pub fn digits(&self) -> Box<Digits> { Box::new(Digits(self.0.unsigned_abs().to_string().bytes().map(|b| b - b'0').collect(), 0)) }
    }
    #[diplomat::opaque]
    pub struct Digits(pub Vec<u8>, pub usize);
    impl Digits {
        #[diplomat::attr(auto, iterator)]
        pub fn next(&mut self) -> Option<u8> { let v = self.0.get(self.1).copied(); self.1 += 1; v }
    }
    @VECATTR@
    pub struct Vec2 { pub x: i32, pub y: i32 }
    impl Vec2 {
        #[diplomat::attr(auto, comparison)]
        pub fn cmp(self, other: Vec2) -> core::cmp::Ordering { (self.x, self.y).cmp(&(other.x, other.y)) }
        #[diplomat::attr(auto, add)]
        pub fn add(self, o: Vec2) -> Vec2 { Vec2 { x: self.x.wrapping_add(o.x), y: self.y.wrapping_add(o.y) } }
        #[diplomat::attr(auto, sub)]
        pub fn sub(self, o: Vec2) -> Vec2 { Vec2 { x: self.x.wrapping_sub(o.x), y: self.y.wrapping_sub(o.y) } }
        #[diplomat::attr(auto, mul)]
        pub fn mul(self, o: Vec2) -> Vec2 { Vec2 { x: self.x.wrapping_mul(o.x), y: self.y.wrapping_mul(o.y) } }
        #[diplomat::attr(auto, div)]
        pub fn div(self, o: Vec2) -> Vec2 {
            let d = |a: i32, b: i32| if b == 0 { 0 } else { a.wrapping_div(b) };
            Vec2 { x: d(self.x, o.x), y: d(self.y, o.y) }
        }
    }
}
'''

DRIVER = r'''
#include <cstdio>
#include <cstdint>
#include <string>
#include <vector>
#include "@NUMHDR@"
#include "@VECHDR@"
#include "@DIGHDR@"
using Num = @NUM@;
using Vec2 = @VEC@;
static long checks = 0, failures = 0;
#define CHECK(cond, ...) do { checks++; if (!(cond)) { failures++; if (failures < 20) { printf("MISMATCH "); printf(__VA_ARGS__); printf("\n"); } } } while (0)
static int32_t wadd(int32_t a, int32_t b) { return (int32_t)((uint32_t)a + (uint32_t)b); }
static int32_t wsub(int32_t a, int32_t b) { return (int32_t)((uint32_t)a - (uint32_t)b); }
static int32_t wmul(int32_t a, int32_t b) { return (int32_t)((uint32_t)a * (uint32_t)b); }
static int32_t wdiv(int32_t a, int32_t b) { if (b == 0) return 0; if (a == INT32_MIN && b == -1) return INT32_MIN; return a / b; }
int main() {
  const std::vector<int32_t> xs = { @VALUES@ };
  for (int32_t x : xs) for (int32_t y : xs) {
    auto a = Num::make(x), b = Num::make(y);
    CHECK((*a == *b) == (x == y), "Num %d == %d", x, y); CHECK((*a != *b) == (x != y), "Num %d != %d", x, y);
    CHECK((*a < *b) == (x < y), "Num %d < %d", x, y);    CHECK((*a <= *b) == (x <= y), "Num %d <= %d", x, y);
    CHECK((*a > *b) == (x > y), "Num %d > %d", x, y);    CHECK((*a >= *b) == (x >= y), "Num %d >= %d", x, y);
    CHECK((*a + *b)->value() == wadd(x, y), "Num %d + %d gives %d", x, y, (*a + *b)->value());
    CHECK((*a - *b)->value() == wsub(x, y), "Num %d - %d gives %d", x, y, (*a - *b)->value());
    CHECK((*a * *b)->value() == wmul(x, y), "Num %d * %d gives %d", x, y, (*a * *b)->value());
    CHECK((*a / *b)->value() == wdiv(x, y), "Num %d / %d gives %d", x, y, (*a / *b)->value());
    { auto c = Num::make(x); *c += *b; CHECK(c->value() == wadd(x, y), "Num %d += %d gives %d", x, y, c->value()); }
    { auto c = Num::make(x); *c -= *b; CHECK(c->value() == wsub(x, y), "Num %d -= %d gives %d", x, y, c->value()); }
    { auto c = Num::make(x); *c *= *b; CHECK(c->value() == wmul(x, y), "Num %d *= %d gives %d", x, y, c->value()); }
    { auto c = Num::make(x); *c /= *b; CHECK(c->value() == wdiv(x, y), "Num %d /= %d gives %d", x, y, c->value()); }
    CHECK(a->value() == x && b->value() == y, "operands changed: %d %d", a->value(), b->value());
    for (int32_t z : { (int32_t)0, (int32_t)-3, (int32_t)2147483647 }) for (int32_t w : { (int32_t)1, (int32_t)-1 }) {
      Vec2 u{x, z}, v{y, w};
      auto lt = std::make_pair(x, z) < std::make_pair(y, w); auto eq = (x == y && z == w);
      CHECK((u == v) == eq, "Vec2 (%d,%d) == (%d,%d)", x, z, y, w); CHECK((u != v) == !eq, "Vec2 (%d,%d) != (%d,%d)", x, z, y, w);
      CHECK((u < v) == lt, "Vec2 (%d,%d) < (%d,%d)", x, z, y, w);   CHECK((u <= v) == (lt || eq), "Vec2 (%d,%d) <= (%d,%d)", x, z, y, w);
      CHECK((u > v) == (!lt && !eq), "Vec2 (%d,%d) > (%d,%d)", x, z, y, w); CHECK((u >= v) == !lt, "Vec2 (%d,%d) >= (%d,%d)", x, z, y, w);
      Vec2 s = u + v; CHECK(s.x == wadd(x, y) && s.y == wadd(z, w), "Vec2 + gives (%d,%d)", s.x, s.y);
      Vec2 d = u - v; CHECK(d.x == wsub(x, y) && d.y == wsub(z, w), "Vec2 - gives (%d,%d)", d.x, d.y);
      Vec2 p = u * v; CHECK(p.x == wmul(x, y) && p.y == wmul(z, w), "Vec2 * gives (%d,%d)", p.x, p.y);
      Vec2 q = u; q += v; CHECK(q.x == wadd(x, y) && q.y == wadd(z, w), "Vec2 += gives (%d,%d)", q.x, q.y);
      Vec2 r = u; r -= v; CHECK(r.x == wsub(x, y) && r.y == wsub(z, w), "Vec2 -= gives (%d,%d)", r.x, r.y);
      Vec2 t = u; t *= v; CHECK(t.x == wmul(x, y) && t.y == wmul(z, w), "Vec2 *= gives (%d,%d)", t.x, t.y);
      Vec2 qd = u / v; CHECK(qd.x == wdiv(x, y) && qd.y == wdiv(z, w), "Vec2 / gives (%d,%d)", qd.x, qd.y);
      Vec2 td = u; td /= v; CHECK(td.x == wdiv(x, y) && td.y == wdiv(z, w), "Vec2 /= gives (%d,%d)", td.x, td.y);
      CHECK(u.x == x && u.y == z, "Vec2 operand changed");
    }
  }
  for (int32_t x : xs) {
    auto a = Num::make(x);
    std::string dec = std::to_string(x < 0 ? -(int64_t)x : (int64_t)x);
    for (size_t i = 0; i < dec.size() + 2; i++) {
      auto d = (*a)[i];
      if (i < dec.size()) CHECK(d.has_value() && *d == dec[i] - '0', "Num(%d)[%zu]", x, i); else CHECK(!d.has_value(), "Num(%d)[%zu] past the end", x, i);
    }
    std::string seen;
    for (auto d : *a) { seen.push_back((char)('0' + d)); }
    CHECK(seen == dec, "iterating Num(%d) gives %s, expected %s", x, seen.c_str(), dec.c_str());
    auto it = a->digits(); size_t n = 0; while (it->next().has_value()) n++;
    CHECK(n == dec.size(), "digits() of %d yields %zu values", x, n);
  }
  printf("SPECIAL checks=%ld failures=%ld\n", checks, failures);
  return failures ? 1 : 0;
}
'''

VALUES = [0, 1, -1, 7, -7, 12, 1000000007, -2147483647 - 1, 2147483647]


def special_leg(chk, tier, seed):
    thorough = tier == "thorough"
    rng = random.Random("c02sp/%s" % seed)
    variants = [("", "", "", "Num", "Vec2", "", ""),
                ('#[diplomat::attr(auto, namespace = "ar")]', "", "", "ar::Num", "ar::Vec2", "ar/", "ar/"),
                ("", '#[diplomat::attr(cpp, rename = "Number")]', '#[diplomat::attr(auto, namespace = "geo::flat")]', "Number", "geo::flat::Vec2", "", "geo/flat/"),
                ('#[diplomat::attr(auto, namespace = "outer")]', '#[diplomat::attr(*, rename = "Z")]', '#[diplomat::attr(cpp, rename = "Pair")]', "outer::Z", "outer::Pair", "outer/", "outer/")]
    stats = {"special_variants": 0, "special_operator_checks": 0, "special_builds": 0}
    for vi, (modattr, numattr, vecattr, num, vec, numdir, vecdir) in enumerate(variants if thorough else variants[:2] + [variants[2 + seed % 2]]):
        d = toolrun.fresh_dir(toolrun.workdir("c02sp", "v%d" % vi))
        src = os.path.join(d, "lib.rs")
        open(src, "w").write(BRIDGE.replace("@MODATTR@", modattr).replace("@NUMATTR@", numattr).replace("@VECATTR@", vecattr))
        rc, o, e = toolrun.rustc_lib(src, os.path.join(d, "libvfprog.a"))
        if rc != 0:
            chk.inconc("special-methods bridge v%d does not compile: %s" % (vi, e[-300:]))
            continue
        rc, o, e = toolrun.run_tool("cpp", src, os.path.join(d, "cpp"))
        if rc != 0:
            chk.inconc("special-methods bridge v%d not accepted by the cpp backend: %s" % (vi, e[-300:]))
            continue
        vals = VALUES + [rng.randint(-2 ** 31, 2 ** 31 - 1) for _ in range(3)]
        drv = (DRIVER.replace("@NUMHDR@", numdir + num.split("::")[-1] + ".hpp").replace("@VECHDR@", vecdir + vec.split("::")[-1] + ".hpp")
               .replace("@DIGHDR@", (modattr and modattr.split('"')[1] + "/" or "") + "Digits.hpp").replace("@NUM@", num).replace("@VEC@", vec)
               .replace("@VALUES@", ", ".join("(int32_t)%d" % v if v != -2 ** 31 else "INT32_MIN" for v in vals)))
        dp = os.path.join(d, "driver.cpp")
        open(dp, "w").write(drv)
        stats["special_variants"] += 1
        for std in ("c++17", "c++20"):
            exe = os.path.join(d, "driver_" + std.replace("+", "p"))
            rc, o, e = run(["g++", "-std=" + std] + api.CXXFLAGS + ["-I", os.path.join(d, "cpp"), dp, os.path.join(d, "libvfprog.a")] + api.LINK_LIBS + ["-o", exe], timeout=600)
            stats["special_builds"] += 1
            if rc != 0:
                chk.violation("special_v%d_%s_build" % (vi, std), "special methods, variant %d (%s, %s), %s: a user program using the generated operators does not compile: %s" % (vi, num, vec, std, e[:600]),
                              {"dir": d, "stderr": e[-3000:]})
                continue
            rc, out, err = run([exe], env=api.ASAN_ENV, timeout=300, cwd=d)
            last = [l for l in out.splitlines() if l.startswith("SPECIAL ")]
            if last:
                stats["special_operator_checks"] += int(last[-1].split("checks=")[1].split()[0])
            reps = api.sanitizer_blocks(err)
            if rc == -999:
                chk.inconc("special methods v%d %s: watchdog" % (vi, std))
            elif rc != 0 or reps or not last:
                mism = [l for l in out.splitlines() if l.startswith("MISMATCH")]
                chk.violation("special_v%d_%s" % (vi, std), "special methods, variant %d (%s, %s), %s: %s" % (vi, num, vec, std, (mism[0] if mism else (reps[0] if reps else "driver exited %s" % rc))),
                              {"dir": d, "mismatches": mism[:20], "reports": reps, "stderr": err[-2000:]})
            try:
                os.remove(exe)
            except OSError:
                pass
    return stats
