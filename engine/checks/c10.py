"""C10 — Option and Result use one consistent wire encoding everywhere.
Paired methods that differ only in spelling (Option<T> / DiplomatOption<T>, Result / DiplomatResult) must get
identical C declarations and behave identically; optional pointers are NULL exactly when absent; the is_ok byte is
exactly 1 for Some/Ok; unit arms occupy no payload (sizeof in C == size_of in Rust == layout model)."""
import copy
import os
import random
import re

import api
import calls
import common
import emit_rust
import spec
import toolrun
from common import Check, pmap
from emit_c import C_PRIM

PRIM_SA = {"i8": (1, 1), "u8": (1, 1), "i16": (2, 2), "u16": (2, 2), "i32": (4, 4), "u32": (4, 4), "i64": (8, 8), "u64": (8, 8),
           "isize": (8, 8), "usize": (8, 8), "f32": (4, 4), "f64": (8, 8), "bool": (1, 1), "DiplomatChar": (4, 4)}


def size_align(prog, t):
    k = t[0]
    if k == "prim":
        return PRIM_SA[t[1]]
    if k == "enum":
        return (4, 4)
    if k in ("obox", "oref"):
        return (8, 8)
    if k == "unit":
        return (0, 1)
    if k == "struct":
        off, al = 0, 1
        for fn, ft in prog.find(t[1]).fields:
            s, a = size_align(prog, ft)
            off = (off + a - 1) // a * a + s
            al = max(al, a)
        return ((off + al - 1) // al * al, al)
    if k == "opt":
        return result_sa(prog, t[1], ("unit",))
    if k == "slice" or k == "str":
        return (16, 8)
    raise ValueError(t)


def result_sa(prog, ok, err):
    s1, a1 = size_align(prog, ok)
    s2, a2 = size_align(prog, err)
    a = max(a1, a2, 1)
    s = max(s1, s2)
    s = (s + a - 1) // a * a      # union
    tot = s + 1
    return ((tot + a - 1) // a * a, a)


def ffi_ty(prog, t):
    k = t[0]
    if k == "prim":
        return "u32" if t[1] == "DiplomatChar" else t[1]
    if k in ("enum", "struct"):
        return "ffi::" + t[1]
    if k == "obox":
        return "Box<ffi::%s>" % t[1]
    if k == "unit":
        return "()"
    raise ValueError(t)


def make_prog(seed, i):
    rng = random.Random("c10/%s/%s" % (seed, i))
    g = spec.Gen(rng, name="p%d" % i, profile=dict(struct_slices=False, struct_orefs=False))
    prog = spec.Program("p%d" % i)
    mod = spec.Module("ffi")
    prog.modules.append(mod)
    en = g.gen_enum()
    st = spec.Struct("Pl", [("f%d" % j, ("prim", rng.choice(list(PRIM_SA)))) for j in range(rng.randint(1, 4))])
    g.structs.append(st)
    # a struct whose fields are optional (field position: DiplomatOption only, as documented)
    sto = spec.Struct("Fo", [("a", ("opt", ("prim", rng.choice(list(PRIM_SA))), "dip")), ("b", ("opt", ("enum", en.name), "dip")),
                             ("c", ("opt", ("struct", "Pl"), "dip")), ("d", ("prim", "u8"))])
    oe = spec.Struct("Oe", [("p", ("prim", rng.choice(["u8", "u32", "i64"]))), ("q", ("prim", rng.choice(["u16", "f64", "bool"])))], out=True)
    op = spec.Opaque("Hub")
    mk = spec.Method("make", None, [("seed", ("prim", "u32"))], ("obox", "Hub", False))
    op.methods.append(mk)
    vid = spec.Method("vf_id", ("ref", None), [], ("prim", "u32"))
    vid.raw_body = "self.id"
    pairs = []
    payloads = [("prim", p) for p in PRIM_SA] + [("enum", en.name), ("struct", "Pl"), ("struct", "Fo")]
    rng.shuffle(payloads)
    for k, pl in enumerate(payloads[:10 + i % 7]):
        a = spec.Method("os%d" % k, ("ref", None), [("x", ("opt", pl, "std"))], ("opt", pl, "std"))
        b = spec.Method("od%d" % k, ("ref", None), [("x", ("opt", pl, "dip"))], ("opt", pl, "dip"))
        op.methods += [a, b]
        pairs.append((a, b))
    arms = [("unit",), ("prim", "u8"), ("prim", "u64"), ("prim", "f32"), ("enum", en.name), ("struct", "Pl"), ("obox", "Hub", False), ("prim", "bool"), ("struct", "Oe"), ("struct", "Oe")]
    for k in range(8 + i % 5):
        ok, err = rng.choice(arms), rng.choice(arms)
        a = spec.Method("rs%d" % k, ("ref", None), [("sel", ("prim", "u8"))], ("result", ok, err, "std"))
        b = spec.Method("rd%d" % k, ("ref", None), [("sel", ("prim", "u8"))], ("result", ok, err, "dip"))
        op.methods += [a, b]
        pairs.append((a, b))
    # the same encoding where Rust *receives* an option from foreign code and hands one to it: callback arguments and returns
    cbpl = [("prim", q) for q in PRIM_SA] + [("enum", en.name), ("struct", "Pl")]
    for k in range(3 + i % 3):
        pa, pr_ = rng.choice(cbpl), rng.choice(cbpl)
        extra = [("prim", rng.choice(list(PRIM_SA)))] if rng.random() < 0.5 else []
        a = spec.Method("cs%d" % k, ("ref", None), [("f", ("cb", extra + [("opt", pa, "std")], ("opt", pr_, "std"), False))], ("unit",))
        b = spec.Method("cd%d" % k, ("ref", None), [("f", ("cb", extra + [("opt", pa, "dip")], ("opt", pr_, "dip"), False))], ("unit",))
        op.methods += [a, b]
        pairs.append((a, b))
    # ... and trait methods (foreign vtables): the same option crossing as an argument and as what the foreign implementation hands back
    # (seed C10-h: the vtable slot of an `-> Option<T>` trait method typed with std's Option)
    for k in range(1 + i % 2):
        pa, pr_ = rng.choice(cbpl), rng.choice(cbpl)
        mut = rng.random() < 0.3
        a = spec.Method("ts%d" % k, ("ref", None), [("t", ("tr", "Ts%d" % k, [("ask", mut, [("prim", "u8"), ("opt", pa, "std")], ("opt", pr_, "std"))]))], ("unit",))
        b = spec.Method("td%d" % k, ("ref", None), [("t", ("tr", "Td%d" % k, [("ask", mut, [("prim", "u8"), ("opt", pa, "dip")], ("opt", pr_, "dip"))]))], ("unit",))
        op.methods += [a, b]
        pairs.append((a, b))
    # the owner's own type spelled `Self` inside an option (a separate AST node that needs the same FFI-safe conversion), on a struct and
    # on an enum: by-value parameter and return, and inside a callback
    for owner in (st, en):
        ot = (owner.kind, owner.name)
        a = spec.Method("so", ("val",), [("o", ("opt", ot, "std"))], ("opt", ot, "std"))
        b = spec.Method("sd", ("val",), [("o", ("opt", ot, "dip"))], ("opt", ot, "dip"))
        a2 = spec.Method("cso", None, [("f", ("cb", [("opt", ot, "std")], ("opt", ot, "std"), False))], ("unit",))
        b2 = spec.Method("csd", None, [("f", ("cb", [("opt", ot, "dip")], ("opt", ot, "dip"), False))], ("unit",))
        a.self_spelling = a2.self_spelling = True
        for m_ in (a, b, a2, b2):
            m_.owner = owner
            owner.methods.append(m_)
        pairs += [(a, b), (a2, b2)]
    # optional pointers
    pr = spec.Method("pref", ("ref", "a"), [("x", ("oref", "Hub", False, None, True))], ("oref", "Hub", False, "a", True), lifetimes=["a"])
    pb = spec.Method("pbox", ("ref", None), [("x", ("oref", "Hub", True, None, True))], ("obox", "Hub", True))
    op.methods += [pr, pb, vid]
    for m in op.methods:
        m.owner = op
    mod.items = [en, st, sto, oe, op]
    emit_rust.assign_abi_names(prog)
    # size probes, exported next to the bridge (plain Rust, outside the bridge module)
    probes, sizes = [], {}
    for a, b in pairs:
        for m in (a, b):
            t = m.ret
            if t[0] == "unit":
                continue
            if t[0] == "opt":
                rty = "diplomat_runtime::DiplomatResult<%s, ()>" % ffi_ty(prog, t[1])
                sizes[m.abi_name] = result_sa(prog, t[1], ("unit",))[0]
            else:
                rty = "diplomat_runtime::DiplomatResult<%s, %s>" % (ffi_ty(prog, t[1]), ffi_ty(prog, t[2]))
                sizes[m.abi_name] = result_sa(prog, t[1], t[2])[0]
            probes.append("#[no_mangle] pub extern \"C\" fn vf_size_%s() -> usize { core::mem::size_of::<%s>() }\n" % (m.abi_name, rty))
    prog.epilogue = "".join(probes)
    return prog, pairs, sizes


def build_script(prog, pairs, rng):
    sc = calls.Script(prog, rng)
    op = prog.find("Hub")
    mk = op.methods[0]
    for _ in range(3):
        sc.call(op, mk)
    for a, b in pairs:
        for rep in range(3):
            op = a.owner
            s1 = sc.call(op, a)
            args = {k: v for k, v in s1["args"].items() if k != "self"}
            for k, v in list(args.items()):
                if isinstance(v, dict) and "cb" in v:          # the twin call gets its own callback (same scripted invocations)
                    args[k] = copy.deepcopy(v)
                    sc.cb_counter += 1
                    args[k]["cb"] = sc.cb_counter
            ret = copy.deepcopy(s1["ret"])
            strip_ids(ret)
            sc.call(op, b, force_self=s1["args"].get("self"), force_args=args, force_ret=ret)
    op = prog.find("Hub")
    for m in op.methods:
        if m.name in ("pref", "pbox"):
            for rep in range(6):
                sc.call(op, m)
    for o in sc.objs:
        if o.alive and o.owned:
            sc.destroy(o)
    return sc


def strip_ids(v):
    if isinstance(v, dict):
        v.pop("id", None)
        v.pop("h", None)
        for x in v.values():
            strip_ids(x)
    elif isinstance(v, (list, tuple)):
        for x in v:
            strip_ids(x)


def decls(header, abi):
    """the prototype of `abi` and the result typedef that precedes it, with the function's own name normalised"""
    out = []
    for l in header.splitlines():
        if re.search(r"\b%s(_result)?\b" % re.escape(abi), l):
            out.append(re.sub(r"\s+", " ", l.replace(abi, "FN")).strip())
    # the callback struct of each callback parameter, member by member (its run_callback member carries the option types)
    for m in re.finditer(r"typedef struct (DiplomatCallback_%s_\w+) \{(.*?)\} \1;" % re.escape(abi), header, re.S):
        out += [re.sub(r"\s+", " ", l).strip() for l in m.group(2).splitlines() if l.strip()]
    return out



def e2e_result_prog(seed, i):
    """Result<T, E> returns whose arms differ in size and alignment in every direction (the union is padded to the stricter alignment and the
    flag follows it): byte structs of odd sizes next to 2-, 4- and 8-byte aligned arms, both arms taken, for the real-wasm32 leg"""
    rng = random.Random("c10e2e/%s/%s" % (seed, i))
    prog = spec.Program("p%d" % i)
    mod = spec.Module("ffi")
    prog.modules.append(mod)
    op = spec.Opaque("Hub")
    op.methods.append(spec.Method("make", None, [("seed", ("prim", "u32"))], ("obox", "Hub", False)))
    en = spec.Enum("En0", [("Va", None), ("Vb", 5), ("Vc", -2)])
    fam = []
    for n in (1, 2, 3, 5, 6, 7):
        fam.append(spec.Struct("B%d" % n, [("f%d" % k, ("prim", "u8")) for k in range(n)]))
    for n in (1, 3):
        fam.append(spec.Struct("H%d" % n, [("f%d" % k, ("prim", rng.choice(["u16", "i16"]))) for k in range(n)]))
    fam.append(spec.Struct("W1", [("f0", ("prim", "u32"))]))
    fam.append(spec.Struct("W3", [("f0", ("prim", "f32")), ("f1", ("prim", "i32")), ("f2", ("prim", "u32"))]))
    fam.append(spec.Struct("D1", [("f0", ("prim", rng.choice(["u64", "f64", "i64"])))]))
    fam.append(spec.Struct("M1", [("f0", ("prim", "u8")), ("f1", ("prim", "u64"))]))
    fam.append(spec.Struct("M2", [("f0", ("prim", "u16")), ("f1", ("prim", "u8"))]))
    for t in fam + [en]:
        t.attrs.append("#[diplomat::attr(auto, error)]")
    arms = [("struct", t.name) for t in fam] + [("enum", "En0"), ("prim", "u8"), ("prim", "u16"), ("prim", "u64"), ("prim", "bool"), ("obox", "Hub", False)]
    errs = [a for a in arms if a[0] in ("struct", "enum")]
    for k in range(12):
        ok, err = rng.choice(arms), rng.choice(errs)
        op.methods.append(spec.Method("r%d" % k, ("ref", None), [("n", ("prim", "u8"))], ("result", ok, err, "std")))
    for k in range(3):
        op.methods.append(spec.Method("o%d" % k, ("ref", None), [], ("opt", rng.choice([a for a in arms if a[0] != "obox"]), "std")))
    mod.items = fam + [en, op]
    for t_ in mod.items:
        for m_ in t_.methods:
            m_.owner = t_
    return prog


# ------------------------------------------------------------------------------------------------ JS leg
# "everywhere" includes the managed side: the generated JS must write is_ok = 1 exactly for a present value
# (also for payloads that are falsy in JS: 0, 0.0, false, 0n) and read it back the same way. The machinery is C08's
# (stub wasm module + rustc's own bytes as ground truth), driven with option-heavy structs and biased payloads.

def option_structs(rng, n):
    import c08
    structs = []
    for k in range(n):
        fields = []
        for _ in range(rng.randint(1, 5)):
            c = rng.random()
            if c < 0.7:
                fields.append(("opt", ("prim", rng.choice(["u8", "i16", "u32", "i64", "u64", "f32", "f64", "bool", "DiplomatChar", "usize", "i8"]))))
            elif c < 0.8:
                fields.append(("opt", ("enum",)))
            elif c < 0.9 and structs:
                fields.append(("opt", ("struct", rng.randrange(len(structs)))))
            else:
                fields.append(("prim", rng.choice(list(c08.PRIMS))))
        structs.append(fields)
    return structs


def js_leg(chk, tier, seed):
    import c08
    nb = 24 if tier == "thorough" else 3
    orig = c08.gen_value

    def biased(rng, structs, f, ctx):
        # half of all present primitive payloads are the JS-falsy value of their type
        if f[0] == "opt":
            return None if rng.random() < 0.3 else ("some", biased(rng, structs, f[1], ctx))
        if f[0] == "prim" and rng.random() < 0.5:
            return 0.0 if c08.PRIMS[f[1]][1] is None else 0
        if f[0] == "struct":
            return [biased(rng, structs, g, ctx) for g in structs[f[1]]]
        return orig(rng, structs, f, ctx)
    c08.gen_value = biased
    try:
        results = pmap(lambda bi: c08.run_batch("c10js/%s" % seed, bi, 10, 6, struct_gen=option_structs), range(nb))
    finally:
        c08.gen_value = orig
    st = {"js_option_fields_written": 0, "js_option_params": 0, "js_batches": nb, "js_falsy_some_payloads": 0}
    pat = re.compile(r"option flag byte|is_ok byte at|flattened argument for \S*\.is_ok ")
    for bi, r in enumerate(results):
        for m in r["inconc"]:
            chk.inconc("js batch %d: %s" % (bi, m))
        st["js_option_fields_written"] += r["st"]["write_checks_spec"] + r["st"]["flatten_checks_legacy"]
        st["js_option_params"] += r["st"]["option_param_checks"]
        seen = set()
        for tup in r["viol"]:
            cid, abi, msg, w = tup[:4]
            tag = tup[4] if len(tup) > 4 else None
            if tag != "option-arm" and not pat.search(msg):
                continue            # layout / calling-convention matters are C08's
            sig = (cid.split("#")[0], abi, msg[:40])
            if sig in seen:
                continue
            seen.add(sig)
            chk.violation("js_b%d_%s_%s" % (bi, cid.replace("#", "v"), abi), "js.abi=%s %s: %s" % (abi, cid, msg), w)
    return st


def main(tier, seed):
    chk = Check("C10", tier, seed, "exploration")
    thorough = tier == "thorough"
    nprog = 300 if thorough else 24
    common.build_tool()
    toolrun.anchor()
    stats = {"pairs": 0, "calls": 0, "declaration_pairs_compared": 0, "size_probes": 0, "events_observed": 0}
    kinds = set()

    def one(i):
        prog, pairs, sizes = make_prog(seed, i)
        sc = build_script(prog, pairs, random.Random("c10s/%s/%s" % (seed, i)))
        d = toolrun.fresh_dir(toolrun.workdir("c10", "p%d" % i))
        prologue = "".join("  { extern size_t vf_size_%s(void); printf(\"SIZE %s %%zu %%zu\\n\", sizeof(%s_result), vf_size_%s()); }\n" % (a, a, a, a) for a in sizes)
        expected_extra = ["SIZE %s %d %d" % (a, s, s) for a, s in sizes.items()]
        res = api.build_and_run_c(prog, sc, d, i, valgrind=False, keep=False, c_prologue=prologue, expected_extra=expected_extra)
        res["pairs"] = pairs
        res["sizes"] = sizes
        # (a) identical declarations
        res["decl_viol"] = []
        if os.path.exists(os.path.join(d, "c", "Hub.h")):
            for a, b in pairs:
                h = open(os.path.join(d, "c", a.owner.name + ".h")).read()
                da, db = decls(h, a.abi_name), decls(h, b.abi_name)
                for m_, dl in ((a, da), (b, db)):
                    # an `impl Trait` parameter: the twin traits differ in name only; their vtables (one header per trait) carry the option types
                    for pn, pt in m_.params:
                        if pt[0] == "tr":
                            dl[:] = [l.replace(pt[1], "TRAIT") for l in dl]
                            tp = os.path.join(d, "c", pt[1] + ".d.h")
                            if os.path.exists(tp):
                                mm = re.search(r"typedef struct %s_VTable \{(.*?)\} %s_VTable;" % (pt[1], pt[1]), open(tp).read(), re.S)
                                dl += [re.sub(r"\s+", " ", l).strip() for l in (mm.group(1).splitlines() if mm else ["<no vtable typedef>"]) if l.strip()]
                if da != db or not da:
                    res["decl_viol"].append((a.abi_name, b.abi_name, da, db))
        return res

    results = pmap(one, range(nprog))
    for r in results:
        i = r["idx"]
        if r["status"] == "skip":
            chk.inconc("p%d skipped at %s: %s" % (i, r["stage"], (r.get("detail") or "")[:200].replace("\n", " ")))
            continue
        if r["status"] == "inconclusive":
            chk.inconc("p%d: %s" % (i, r.get("detail")))
            continue
        stats["pairs"] += len(r["pairs"])
        stats["calls"] += r["calls"]
        stats["declaration_pairs_compared"] += len(r["pairs"])
        stats["size_probes"] += len(r["sizes"])
        stats["events_observed"] += r.get("observed_events", 0)
        for a, b in r["pairs"]:
            kinds.add(spec.ty_sig(a.ret) if a.ret != ("unit",) else spec.ty_sig(a.params[0][1]))
        for an, bn, da, db in r["decl_viol"][:3]:
            chk.violation("p%d_decl_%s" % (i, an), "p%d: %s and %s differ only in spelling but their C declarations differ: %s vs %s" % (i, an, bn, da, db),
                          {"a": da, "b": db, "dir": r["dir"]})
        if r["status"] == "violation":
            d = r.get("diff")
            summ = "program p%d stage=%s: " % (i, r["stage"]) + ("event %d expected `%s` observed `%s`" % d if d else str(r.get("reports") or r.get("detail"))[:400])
            chk.violation("p%d" % i, summ, api.witness(r))
    stats.update(js_leg(chk, tier, seed))
    # the same question on a real wasm32 module: which arm does Rust receive / JS read back, inside whole call histories through the generated JS.
    # Only arm disagreements and faults in the receive path belong here; other value mismatches are C08's.
    def arms(s):
        return re.sub(r"[^SNOE(]", "", re.sub(r"\b[0-9a-f]+\b|\"[0-9a-f]*\"", "", s.split(" ", 2)[-1] if s.count(" ") >= 2 else ""))

    def only(r):
        d = r.get("diff")
        if d and isinstance(d[1], str) and isinstance(d[2], str) and d[1].split(" ")[:2] == d[2].split(" ")[:2] and arms(d[1]) != arms(d[2]):
            return True
        return any(("GUARD" in x or "RangeError" in x or "THREW" in x) for x in (r.get("reports") or [])) or bool(d and "THREW" in str(d[2]))
    e2e = api.js_e2e_leg(chk, seed + 10800, 400 if thorough else 48, "c10e2e", profile=dict(max_params=3), only=only, label="js-e2e")
    stats.update({"js_e2e_" + k: v for k, v in e2e.items()})
    e2r = api.js_e2e_leg(chk, seed + 10900, 96 if thorough else 16, "c10e2r", ncalls=60, only=only, label="js-e2e-results", prepared=lambda i: e2e_result_prog(seed, i))
    stats.update({"js_e2e_results_" + k: v for k, v in e2r.items()})
    stats["js_e2e_calls"] += e2r["calls"]
    chk.evaluations = stats["calls"] + stats["size_probes"] + stats["declaration_pairs_compared"] + stats["js_option_fields_written"] + stats["js_option_params"] + stats["js_e2e_calls"]
    chk.distinct = kinds
    chk.rule = ("per program: 10-16 Option pairs over {13 primitives, enum, struct, struct with DiplomatOption fields} in parameter and return position and "
                "8-12 Result/DiplomatResult pairs over arms {unit, u8, u64, f32, bool, enum, struct, Box<opaque>}; both members of a pair are called 3 times "
                "with the same scripted argument and return values (both arms); the C driver reads the flag byte raw (anything but 0/1 is reported), prints "
                "sizeof(<abi>_result) next to Rust's size_of (must both equal the layout model: unit arms add no payload), NULL-ness of Option<&T>/Option<Box<T>>; "
                "declarations of pair members are compared textually after normalising the function name. JS leg: option-heavy structs and Option parameters/returns through the generated JS (both js.abi values) against rustc's bytes, half of the present payloads being JS-falsy (0, 0.0, false); only flag/arm disagreements are reported here. distinct_nontrivial = distinct paired return types.")
    chk.extra = dict(stats, programs=nprog)
    ok = [r for r in results if r["status"] == "ok"]
    if ok:
        r = ok[0]
        a, b = r["pairs"][0]
        chk.sample({"pair": [a.abi_name, b.abi_name], "rust": [emit_rust.rs_ty(r["prog"], a.ret), emit_rust.rs_ty(r["prog"], b.ret)],
                    "c_declarations": decls(open(os.path.join(r["dir"], "c", "Hub.h")).read(), a.abi_name)})
        chk.sample({"size_probe": list(r["sizes"].items())[:4]})
    chk.assumptions = ["x86-64 SysV layout model for sizes", "field position uses DiplomatOption only (std Option in fields is rejected by the gate, see C05)"]
    return chk.finish()
