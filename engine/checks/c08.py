"""C08 — JS bindings read and write structs with the real wasm32 repr(C) layout.

Observation point as the property describes it: the generated .mjs is executed in Node against a stub
diplomat-wasm.mjs (plain WebAssembly.Memory + recording proxy for the exports; allocations are filled with 0xCD so
that bytes the JS never writes are visible).  Ground truth: a mirror of every struct compiled by rustc with
pointer-sized fields replaced by u32 — size_of / align_of / offset_of! and the bytes of each test value.
 * JS -> Rust, js.abi=spec: bytes found at the pointer handed to the export == rustc's bytes (field by field, and the
   option flag bytes), buffer allocated with the struct's size and alignment, freed with the same.
 * JS -> Rust, js.abi=legacy: the flattened argument list == executable model of docs/wasm_abi_quirks.md
   ("direct" for <= 2 scalars, otherwise "padded direct" with padding typed by the previous field's alignment,
   unions as size/align slots + flag + padding) evaluated on rustc's layout.
 * Rust -> JS (both ABIs): the stub puts rustc's bytes into the receive buffer; the fields JS reads back must equal the
   values; the receive buffer must have rustc's size_of / align_of.
"""
import json
import os
import random
import re

import common
import toolrun
from common import Check, pmap, run

PRIMS = {"u8": (1, False), "i8": (1, True), "u16": (2, False), "i16": (2, True), "u32": (4, False), "i32": (4, True), "u64": (8, False), "i64": (8, True),
         "usize": (4, False), "isize": (4, True), "f32": (4, None), "f64": (8, None), "bool": (1, False), "DiplomatChar": (4, False)}
ENUM = [("A", 0), ("B", 7), ("C", -3), ("D", 2147483647)]


# ------------------------------------------------------------------------------------------------ generation

def gen_field(rng, structs, depth):
    c = rng.random()
    if c < 0.45:
        return ("prim", rng.choice(list(PRIMS)))
    if c < 0.53:
        return ("enum",)
    if c < 0.63:
        return ("ptr", rng.random() < 0.5)
    if c < 0.73:
        return ("slice", rng.choice(["u8", "u16", "f64", "str8", "str16", "i32", "DiplomatChar"]))
    if c < 0.85 and structs and depth < 2:
        return ("struct", rng.randrange(len(structs)))
    if c < 0.97:
        # DiplomatOption<Struct<'a>> (an optional *borrowing* struct) is left out: the JS edge plumbing throws for it
        # (same family as known finding F2: optional borrowed aggregates are not supported by the managed backends)
        plain = [i for i, st in enumerate(structs) if not has_lt(structs, st)]
        inner = rng.choice([("prim", rng.choice(list(PRIMS))), ("enum",)] + ([("struct", rng.choice(plain))] if plain else []))
        return ("opt", inner)
    return ("prim", "u8")


def gen_structs(rng, n):
    structs = []
    # boundary family of the legacy "padded direct" rules (docs/wasm_abi_quirks.md): small structs around the 1/2/3/4-scalar
    # thresholds, with and without inner padding, nested in either position
    small, big = ["u8", "i8", "bool", "u16", "i16"], ["u32", "i32", "f32", "u64", "f64", "i64", "usize"]
    if n >= 8:
        a, b = ("prim", rng.choice(small)), ("prim", rng.choice(big))
        structs.append([a, b] if rng.random() < 0.5 else [b, a])                       # S0: 2 scalars, padded
        structs.append([("prim", rng.choice(big)), ("prim", rng.choice(big))])           # S1: 2 scalars
        extra = lambda: ("prim", rng.choice(small + big))
        for inner in (0, 1, 0):
            k = len(structs) - 2                                                        # 3, 3 and 4 transitive scalars
            fields = [("struct", inner)] + [extra() for _ in range(1 if k < 2 else 2)]
            rng.shuffle(fields)
            structs.append(fields)
        # a slice (two wasm scalars: pointer and length) next to one small scalar, in both orders, and the pair wrapped alone
        sl = ("slice", rng.choice(["u8", "u16", "f64", "str8", "str16", "i32", "DiplomatChar"]))
        structs.append([("prim", rng.choice(small)), sl])
        structs.append([sl, ("prim", rng.choice(small))])
        structs.append([("struct", len(structs) - rng.choice([1, 2]))])
        # the padded two-scalar struct S0 wrapped alone (its two scalars pass through the wrapper: the caller's forced padding has to be
        # forwarded), and that wrapper next to one small scalar (seed C08-j)
        structs.append([("struct", 0)])
        structs.append([("prim", rng.choice(small)), ("struct", len(structs) - 1)] if rng.random() < 0.5 else [("struct", len(structs) - 1), ("prim", rng.choice(small))])
    for k in range(len(structs), n):
        nf = rng.randint(1, 8) if k % 3 else rng.randint(1, 4)
        fields = [gen_field(rng, structs, 0) for _ in range(nf)]
        structs.append(fields)
    return structs


def has_lt(structs, fields):
    for f in fields:
        if f[0] in ("ptr", "slice"):
            return True
        if f[0] == "struct" and has_lt(structs, structs[f[1]]):
            return True
        if f[0] == "opt" and f[1][0] == "struct" and has_lt(structs, structs[f[1][1]]):
            return True
    return False


def rs_field_ty(structs, f, mirror):
    k = f[0]
    if k == "prim":
        if mirror and f[1] in ("usize", "isize"):
            return "u32" if f[1] == "usize" else "i32"
        if mirror and f[1] == "DiplomatChar":
            return "u32"
        return f[1]
    if k == "enum":
        return "En"
    if k == "ptr":
        return "u32" if mirror else ("Option<&'a Op>" if f[1] else "&'a Op")
    if k == "slice":
        if mirror:
            return "Sl"
        return {"str8": "DiplomatStrSlice<'a>", "str16": "DiplomatStr16Slice<'a>"}.get(f[1], "DiplomatSlice<'a, %s>" % f[1])
    if k == "struct":
        return "S%d%s" % (f[1], "" if mirror or not has_lt(structs, structs[f[1]]) else "<'a>")
    if k == "opt":
        return ("Opt<%s>" if mirror else "DiplomatOption<%s>") % rs_field_ty(structs, f[1], mirror)


def bridge_source(structs):
    out = ["#![allow(warnings)]\n#[diplomat::bridge]\npub mod ffi {\n    use diplomat_runtime::{DiplomatOption, DiplomatStrSlice, DiplomatStr16Slice, DiplomatSlice, DiplomatChar};\n",
           "    #[diplomat::opaque] pub struct Op(pub u8);\n    pub enum En { %s }\n" % ", ".join("%s = %d" % v for v in ENUM)]
    for k, fields in enumerate(structs):
        lt = "<'a>" if has_lt(structs, fields) else ""
        out.append("    pub struct S%d%s { %s }\n" % (k, lt, ", ".join("pub f%d: %s" % (i, rs_field_ty(structs, f, False)) for i, f in enumerate(fields))))
    out.append("    #[diplomat::opaque] pub struct Hub(pub u8);\n    impl Hub {\n")
    for k, fields in enumerate(structs):
        lt = "<'a>" if has_lt(structs, fields) else ""
        if lt:
            out.append("        pub fn take%d<'a>(&self, s: S%d<'a>) -> u8 { 0 }\n        pub fn give%d<'a>(&'a self) -> S%d<'a> { unimplemented!() }\n" % (k, k, k, k))
        else:
            out.append("        pub fn take%d(&self, s: S%d) -> u8 { 0 }\n        pub fn give%d(&self) -> S%d { unimplemented!() }\n" % (k, k, k, k))
    for j, inner in enumerate(opt_payloads(structs)):
        out.append("        pub fn opt%d(&self, x: Option<%s>) -> Option<%s> { x }\n" % (j, rs_field_ty(structs, inner, False), rs_field_ty(structs, inner, False)))
    out.append("    }\n}\n")
    return "".join(out)


def opt_payloads(structs):
    """payloads for Option<T> parameters/returns: a few primitives, the enum, and the lifetime-free structs"""
    out = [("prim", p) for p in ("u8", "i16", "u32", "i64", "f32", "f64", "bool", "DiplomatChar", "usize")] + [("enum",)]
    out += [("struct", i) for i, st in enumerate(structs) if not has_lt(structs, st)][:6]
    return out


# ------------------------------------------------------------------------------------------------ values

def gen_value(rng, structs, f, ctx):
    k = f[0]
    if k == "prim":
        size, signed = PRIMS[f[1]]
        if f[1] == "bool":
            return rng.randint(0, 1)
        if f[1] == "DiplomatChar":
            return rng.choice([0x41, 0x20ac, 0x1f600, 0x10ffff, 0])
        if signed is None:
            return rng.choice([0.0, 1.5, -2.25, 1e10, 3.0e-5, float(rng.randint(-1000, 1000)) / 8])
        bits = rng.choice([0, 1, (1 << (8 * size)) - 1, 1 << (8 * size - 1), (1 << (8 * size - 1)) - 1, rng.getrandbits(8 * size), (1 << 53) + 1 if size == 8 else 5])
        bits &= (1 << (8 * size)) - 1
        if signed and bits >= 1 << (8 * size - 1):
            bits -= 1 << (8 * size)
        return bits
    if k == "enum":
        return rng.randrange(len(ENUM))
    if k == "ptr":
        if f[1] and rng.random() < 0.4:
            return None
        ctx["ptr"] += 16
        return 0x2000 + ctx["ptr"]
    if k == "slice":
        if f[1] == "str8":
            return rng.choice(["", "a", "héllo", "€uro😀", "plain ascii"])
        if f[1] == "str16":
            return rng.choice(["", "ab", "ünï", "😀x"])
        n = rng.choice([0, 1, 3, 5])
        if f[1] == "f64":
            return [float(rng.randint(-50, 50)) / 4 for _ in range(n)]
        return [rng.getrandbits({"u8": 8, "u16": 16, "i32": 31, "DiplomatChar": 21}[f[1]]) for _ in range(n)]      # code points above 0xffff included
    if k == "struct":
        return [gen_value(rng, structs, g, ctx) for g in structs[f[1]]]
    if k == "opt":
        return None if rng.random() < 0.4 else ("some", gen_value(rng, structs, f[1], ctx))


def rs_lit(structs, f, v):
    """Rust expression of the mirror type"""
    k = f[0]
    if k == "prim":
        p = f[1]
        if p == "bool":
            return "true" if v else "false"
        if p in ("f32", "f64"):
            return "%r%s" % (float(v), p)
        mp = {"usize": "u32", "isize": "i32", "DiplomatChar": "u32"}.get(p, p)
        return "(%d) as %s" % (v, mp)
    if k == "enum":
        return "En::%s" % ENUM[v][0]
    if k == "ptr":
        return "%du32" % (v or 0)
    if k == "slice":
        return "Sl { ptr: 0, len: %d }" % slice_len(f, v)
    if k == "struct":
        return struct_lit(structs, f[1], v)
    if k == "opt":
        if v is None:
            return "Opt::none()"
        return "Opt::some(%s)" % rs_lit(structs, f[1], v[1])


def slice_len(f, v):
    if f[1] == "str8":
        return len(v.encode("utf-8"))
    if f[1] == "str16":
        return len(v.encode("utf-16-le")) // 2
    return len(v)


def struct_lit(structs, k, v):
    return "{ let mut s: M%d = unsafe { core::mem::zeroed() }; %s s }" % (k, " ".join("s.f%d = %s;" % (i, rs_lit(structs, f, x)) for i, (f, x) in enumerate(zip(structs[k], v))))


def js_lit(structs, f, v):
    k = f[0]
    if k == "prim":
        p = f[1]
        if p == "bool":
            return "true" if v else "false"
        if p in ("u64", "i64"):
            return "%dn" % v
        return repr(float(v)) if p in ("f32", "f64") else str(v)
    if k == "enum":
        return "En.%s" % ENUM[v][0]
    if k == "ptr":
        return "null" if v is None else "mkOp(%d)" % v
    if k == "slice":
        return json.dumps(v)
    if k == "struct":
        return "{ %s }" % ", ".join("f%d: %s" % (i, js_lit(structs, g, x)) for i, (g, x) in enumerate(zip(structs[f[1]], v)))
    if k == "opt":
        return "null" if v is None else js_lit(structs, f[1], v[1])


def js_expected(structs, f, v):
    """what reading the field back in JS must give, as JSON-able canonical form"""
    k = f[0]
    if k == "prim":
        p = f[1]
        if p == "bool":
            return bool(v)
        if p in ("u64", "i64"):
            return "big:%d" % v
        if p == "f32":
            import struct as st
            return st.unpack("<f", st.pack("<f", v))[0]
        return v
    if k == "enum":
        return "enum:%s" % ENUM[v][0]
    if k == "ptr":
        return None if v is None else "ptr:%d" % v
    if k == "slice":
        return v
    if k == "struct":
        return {"f%d" % i: js_expected(structs, g, x) for i, (g, x) in enumerate(zip(structs[f[1]], v))}
    if k == "opt":
        return None if v is None else js_expected(structs, f[1], v[1])


MIRROR_PRELUDE = r'''
#![allow(warnings)]
use core::mem::{size_of, align_of, MaybeUninit};
#[repr(C)] #[derive(Clone, Copy)] pub struct Sl { ptr: u32, len: u32 }
#[repr(C)] #[derive(Clone, Copy)] pub struct Opt<T: Copy> { v: MaybeUninit<T>, ok: bool }
impl<T: Copy> Opt<T> {
    fn none() -> Self { let mut o: Self = unsafe { core::mem::zeroed() }; o.ok = false; o }
    fn some(x: T) -> Self { let mut o: Self = unsafe { core::mem::zeroed() }; o.v = MaybeUninit::new(x); o.ok = true; o }
}
#[repr(C)] #[derive(Clone, Copy)] pub enum En { @ENUM@ }
fn hex<T>(x: &T) -> String { let p = x as *const T as *const u8; (0..size_of::<T>()).map(|i| format!("{:02x}", unsafe { *p.add(i) })).collect() }
'''


def mirror_source(structs, values):
    out = [MIRROR_PRELUDE.replace("@ENUM@", ", ".join("%s = %d" % v for v in ENUM))]
    for k, fields in enumerate(structs):
        out.append("#[repr(C)] #[derive(Clone, Copy)] pub struct M%d { %s }\n" % (k, ", ".join("f%d: %s" % (i, rs_field_ty(structs, f, True).replace("S", "M") if f[0] in ("struct", "opt") else rs_field_ty(structs, f, True)) for i, f in enumerate(fields))))
    out.append("fn main() {\n    println!(\"{{\");\n")
    for k, fields in enumerate(structs):
        offs = ", ".join("[{}, {}, {}]" for _ in fields)
        args = ", ".join("core::mem::offset_of!(M%d, f%d), size_of::<%s>(), align_of::<%s>()" % (k, i, mty(structs, f), mty(structs, f)) for i, f in enumerate(fields))
        vals = ", ".join("\\\"{}\\\"" for _ in values[k])
        vargs = ", ".join("hex(&%s)" % struct_lit(structs, k, v) for v in values[k])
        out.append("    println!(\"\\\"S%d\\\": {{\\\"size\\\": {}, \\\"align\\\": {}, \\\"fields\\\": [%s], \\\"values\\\": [%s]}}%s\", size_of::<M%d>(), align_of::<M%d>(), %s, %s);\n" % (
            k, offs, vals, "," if k + 1 < len(structs) else "", k, k, args, vargs))
    out.append("    println!(\"}}\");\n}\n")
    return "".join(out)


def opt_mirror_source(structs, ovalues):
    """a second tiny program: bytes of Opt<T> values for the option-parameter leg"""
    base = mirror_source(structs, [[] for _ in structs])
    head = base[:base.index("fn main() {")]
    out = [head, "fn main() {\n    println!(\"{{\");\n"]
    pls = opt_payloads(structs)
    for j, inner in enumerate(pls):
        ty = "Opt<%s>" % mty(structs, inner)
        vals = ", ".join("\\\"{}\\\"" for _ in ovalues[j])
        vargs = ", ".join("hex(&(%s))" % ("Opt::<%s>::none()" % mty(structs, inner) if v is None else "Opt::some(%s)" % rs_lit(structs, inner, v[1])) for v in ovalues[j])
        out.append("    println!(\"\\\"O%d\\\": {{\\\"size\\\": {}, \\\"align\\\": {}, \\\"inner_size\\\": {}, \\\"values\\\": [%s]}}%s\", size_of::<%s>(), align_of::<%s>(), size_of::<%s>(), %s);\n" % (
            j, vals, "," if j + 1 < len(pls) else "", ty, ty, mty(structs, inner), vargs))
    out.append("    println!(\"}}\");\n}\n")
    return "".join(out)


def mty(structs, f):
    t = rs_field_ty(structs, f, True)
    return re.sub(r"\bS(\d+)\b", r"M\1", t)


# ------------------------------------------------------------------------------------------------ real wasm32 ground truth

PROBE_PRELUDE = '''#![no_std]
#![allow(warnings)]
use core::mem::{size_of, align_of, offset_of};
#[repr(C)] #[derive(Clone, Copy)] pub struct Sl { ptr: *const u8, len: usize }
#[repr(C)] #[derive(Clone, Copy)] pub union U<T: Copy> { ok: T, err: () }
#[repr(C)] #[derive(Clone, Copy)] pub struct Opt<T: Copy> { v: U<T>, is_ok: bool }
#[repr(C)] #[derive(Clone, Copy)] pub enum En { @ENUM@ }
#[panic_handler] fn p(_: &core::panic::PanicInfo) -> ! { loop {} }
'''


def probe_field_ty(structs, f):
    k = f[0]
    if k == "prim":
        return {"DiplomatChar": "u32"}.get(f[1], f[1])
    if k == "enum":
        return "En"
    if k == "ptr":
        return "*const u8"
    if k == "slice":
        return "Sl"
    if k == "struct":
        return "M%d" % f[1]
    return "Opt<%s>" % probe_field_ty(structs, f[1])


def probe_source(structs):
    out = [PROBE_PRELUDE.replace("@ENUM@", ", ".join("%s = %d" % v for v in ENUM))]
    for k, fields in enumerate(structs):
        out.append("#[repr(C)] #[derive(Clone, Copy)] pub struct M%d { %s }\n" % (k, ", ".join("f%d: %s" % (i, probe_field_ty(structs, f)) for i, f in enumerate(fields))))
        out.append("#[no_mangle] pub extern \"C\" fn take_%d(this: *const u8, s: M%d) -> u8 { unsafe { *this } }\n" % (k, k))
        out.append("#[no_mangle] pub extern \"C\" fn give_%d(this: *const u8) -> M%d { unsafe { core::ptr::read_volatile(this as *const M%d) } }\n" % (k, k, k))
        out.append("#[no_mangle] pub extern \"C\" fn lay_%d(i: usize) -> usize { match i { 0 => size_of::<M%d>(), 1 => align_of::<M%d>(), %s _ => 0 } }\n" % (
            k, k, k, " ".join("%d => offset_of!(M%d, f%d)," % (i + 2, k, i) for i in range(len(fields)))))
    return "".join(out)


def parse_ir(ll):
    """-> {k: {"param": "direct"|"indirect"|"splat:<n>", "ret": "direct"|"sret"}} from the define lines of the LLVM IR"""
    out = {}
    for m in re.finditer(r"^define [^@]*@(take|give)_(\d+)\((.*?)\) (?:unnamed_addr|local_unnamed_addr|#)", ll, re.M):
        kind, k, params = m.group(1), int(m.group(2)), m.group(3)
        plist = []
        depth, cur = 0, ""
        for ch in params:
            if ch in "([{<":
                depth += 1
            elif ch in ")]}>":
                depth -= 1
            if ch == "," and depth == 0:
                plist.append(cur.strip())
                cur = ""
            else:
                cur += ch
        if cur.strip():
            plist.append(cur.strip())
        e = out.setdefault(k, {})
        if kind == "take":
            rest = plist[1:]
            if len(rest) == 1 and rest[0].startswith("ptr") and ("byval" in rest[0] or "dead_on_return" in rest[0] or "dereferenceable(" in rest[0]):
                e["param"] = "indirect"
            elif len(rest) == 1:
                e["param"] = "direct"
            else:
                e["param"] = "splat:%d" % len(rest)
        else:
            e["ret"] = "sret" if any("sret" in p for p in plist) else "direct"
    return out


WASM_LAYOUT_JS = '''
import fs from "node:fs";
const wasm = (await WebAssembly.instantiate(fs.readFileSync(process.argv[2]), {})).instance.exports;
const counts = JSON.parse(process.argv[3]);
const out = {};
counts.forEach((n, k) => { const f = wasm["lay_" + k]; out["S" + k] = { size: f(0), align: f(1), offsets: Array.from({ length: n }, (_, i) => f(i + 2)) }; });
console.log(JSON.stringify(out));
'''


# ------------------------------------------------------------------------------------------------ legacy flattening model

def scalars(structs, f, layout, base, path):
    """transitive scalar leaves of a field: [(offset, size, align, kind, path)] kind: int|i64|f32|f64|unionslot|flag"""
    k = f[0]
    if k == "prim":
        size = PRIMS[f[1]][0]
        kind = {"f32": "f32", "f64": "f64"}.get(f[1], "i64" if size == 8 else "int")
        return [(base, size, size, kind, path)]
    if k == "enum":
        return [(base, 4, 4, "int", path)]
    if k == "ptr":
        return [(base, 4, 4, "int", path)]
    if k == "slice":
        return [(base, 4, 4, "int", path + ".ptr"), (base + 4, 4, 4, "int", path + ".len")]
    if k == "struct":
        out = []
        lay = layout["S%d" % f[1]]
        for i, g in enumerate(structs[f[1]]):
            out += scalars(structs, g, layout, base + lay["fields"][i][0], path + ".f%d" % i)
        return out
    if k == "opt":
        isz, ial = inner_size_align(structs, f[1], layout)
        out = [(base + j * ial, ial, ial, "unionslot", path + ".u%d" % j) for j in range(isz // ial if ial else 0)]
        out.append((base + isz, 1, 1, "flag", path + ".is_ok"))
        return out


def inner_size_align(structs, f, layout):
    if f[0] == "prim":
        s = PRIMS[f[1]][0]
        return s, s
    if f[0] == "enum":
        return 4, 4
    lay = layout["S%d" % f[1]]
    return lay["size"], lay["align"]


def field_align(structs, f, layout):
    if f[0] == "prim":
        return PRIMS[f[1]][0]
    if f[0] in ("enum", "ptr", "slice"):
        return 4
    if f[0] == "struct":
        return layout["S%d" % f[1]]["align"]
    return inner_size_align(structs, f[1], layout)[1]


def legacy_slots(structs, k, layout, base=0, prefix="", top=True):
    """docs/wasm_abi_quirks.md as an executable model. Returns [("field", path, size, kind, abs offset) | ("pad", unit)].
    * an aggregate that transitively holds <= 2 scalars and no union is passed "direct" (top level only);
    * otherwise "padded direct": every gap becomes gap/A slots where A is the alignment of the preceding field (the whole field:
      a nested struct or option counts with its own alignment), nested aggregates contribute their own slots including their
      trailing padding, unions (options) are size/align slots of `align` bytes followed by the flag byte and i8 padding."""
    lay = layout["S%d" % k]
    leaves = []
    for i, f in enumerate(structs[k]):
        leaves += scalars(structs, f, layout, lay["fields"][i][0], "f%d" % i)
    has_union = any(l[3] in ("unionslot", "flag") for l in leaves)
    if top and len(leaves) <= 2 and not has_union:
        return [("field", prefix + l[4], l[1], l[3], base + l[0]) for l in leaves]
    out, pos, prev_align = [], 0, 1
    for i, f in enumerate(structs[k]):
        off, size, align = lay["fields"][i]
        if off > pos:
            out += [("pad", prev_align)] * ((off - pos) // prev_align)
        path = "%sf%d" % (prefix, i)
        if f[0] == "struct":
            out += legacy_slots(structs, f[1], layout, base + off, path + ".", top=False)
        elif f[0] == "opt":
            isz, ial = inner_size_align(structs, f[1], layout)
            out += [("field", "%s.u%d" % (path, j), ial, "unionslot", base + off + j * ial) for j in range(isz // ial)]
            out.append(("field", path + ".is_ok", 1, "flag", base + off + isz))
            out += [("pad", 1)] * (size - isz - 1)
        elif f[0] == "slice":
            out += [("field", path + ".ptr", 4, "int", base + off), ("field", path + ".len", 4, "int", base + off + 4)]
        else:
            sz = PRIMS[f[1]][0] if f[0] == "prim" else 4
            kind = {"f32": "f32", "f64": "f64"}.get(f[1] if f[0] == "prim" else "", "i64" if sz == 8 else "int")
            out.append(("field", path, sz, kind, base + off))
        pos = off + size
        prev_align = field_align(structs, f, layout)
    if lay["size"] > pos:
        out += [("pad", prev_align)] * ((lay["size"] - pos) // prev_align)
    return out


# ------------------------------------------------------------------------------------------------ node side

STUB = r'''
// stub for diplomat-wasm.mjs: plain memory + recording proxy, allocations filled with 0xCD
const memory = new WebAssembly.Memory({ initial: 8 });
let next = 4096;
export const log = { allocs: [], frees: [], calls: [] };
export const ctl = { onCall: null };
const base = {
  memory,
  diplomat_alloc(size, align) {
    next = Math.ceil(next / Math.max(align, 1)) * Math.max(align, 1);
    const p = next; next += Math.max(size, 1) + 8;
    new Uint8Array(memory.buffer, p, size).fill(0xCD);
    log.allocs.push([p, size, align]);
    return p;
  },
  diplomat_free(p, size, align) { log.frees.push([p, size, align]); },
};
const wasm = new Proxy(base, {
  get(t, name) {
    if (name in t) return t[name];
    if (typeof name !== "string") return undefined;
    return (...args) => { log.calls.push([name, args.map(a => typeof a === "bigint" ? "big:" + a.toString() : a)]); return ctl.onCall ? ctl.onCall(name, args) : 0; };
  }
});
export default wasm;
'''

DRIVER = r'''
import wasm, { log, ctl } from "./diplomat-wasm.mjs";
import * as rt from "./diplomat-runtime.mjs";
import { Op } from "./Op.mjs";
import { En } from "./En.mjs";
import { Hub } from "./Hub.mjs";
const data = JSON.parse((await import("node:fs")).readFileSync(new URL("./vf_data.json", import.meta.url)));
const mkOp = (p) => new Op(rt.internalConstructor, p, []);
const hub = new Hub(rt.internalConstructor, 64, []);
const mem = () => new Uint8Array(wasm.memory.buffer);
const hex = (p, n) => Array.from(mem().slice(p, p + n)).map(b => b.toString(16).padStart(2, "0")).join("");
function canon(v) {
  if (v === null || v === undefined) return null;
  if (typeof v === "bigint") return "big:" + v.toString();
  if (typeof v === "number" || typeof v === "boolean" || typeof v === "string") return v;
  if (v instanceof En) return "enum:" + v.value;
  if (v instanceof Op) return "ptr:" + v.ffiValue;
  if (ArrayBuffer.isView(v) || Array.isArray(v)) return Array.from(v, canon);
  const o = {}; for (const k of Object.keys(data.fieldnames[v.constructor.name] || {})) o[k] = canon(v[k]); return o;
}
const results = [];
for (const c of data.cases) {
  const rec = { id: c.id };
  try {
    const Cls = (await import("./" + c.struct + ".mjs"))[c.struct];
    // ---------- JS -> Rust
    log.allocs.length = 0; log.frees.length = 0; log.calls.length = 0;
    let seen = null;
    ctl.onCall = (name, args) => { if (name === "Hub_take" + c.k) { seen = { args: args.map(a => typeof a === "bigint" ? "big:" + a.toString() : a) };
        if (data.abi === "spec" && typeof args[1] === "number" && log.allocs.some(a => a[0] === args[1])) { const p = args[1]; seen.ptr = p; seen.bytes = hex(p, c.size); seen.slices = c.slicefields.map(([off, esz]) => { const dv = new DataView(wasm.memory.buffer); const sp = dv.getUint32(p + off, true), sl = dv.getUint32(p + off + 4, true); return [sp, sl, hex(sp, sl * esz)]; }); }
        else { seen.slices = []; } }
      return 0; };
    const value = new Cls(eval("(" + c.js + ")"));
    hub["take" + c.k](value);
    rec.take = seen; rec.take_allocs = log.allocs.slice(); rec.take_frees = log.frees.slice();
    // ---------- Rust -> JS
    log.allocs.length = 0; log.frees.length = 0; log.calls.length = 0;
    ctl.onCall = (name, args) => { if (name === "Hub_give" + c.k) {
        if (args.length === 1) { rec.give_direct = true; return c.scalar_ret === null ? 0 : (typeof c.scalar_ret === "string" ? BigInt(c.scalar_ret) : c.scalar_ret); }
        const p = args[0]; const bytes = c.bytes; const m = mem();
        for (let i = 0; i < c.size; i++) m[p + i] = parseInt(bytes.substr(2 * i, 2), 16);
        const dv = new DataView(wasm.memory.buffer);
        for (const [off, hexdata] of c.slicedata) { const q = wasm.diplomat_alloc(hexdata.length / 2 + 8, 8); for (let i = 0; i < hexdata.length / 2; i++) mem()[q + i] = parseInt(hexdata.substr(2 * i, 2), 16); dv.setUint32(p + off, q, true); }
        rec.give_retptr = p; }
      return 0; };
    const got = hub["give" + c.k]();
    rec.give = canon(got); rec.give_allocs = log.allocs.slice(); rec.give_frees = log.frees.slice();
  } catch (e) { rec.error = String(e && e.stack || e).slice(0, 600); }
  results.push(rec);
}
const oresults = [];
for (const c of data.optcases) {
  const rec = { id: c.id };
  try {
    log.allocs.length = 0; log.frees.length = 0; log.calls.length = 0;
    ctl.onCall = (name, args) => { if (name === "Hub_opt" + c.j) {
        rec.args = args.map(a => typeof a === "bigint" ? "big:" + a.toString() : (a === undefined ? "undefined" : a));
        const retptr = args[0]; const m = mem();
        for (let i = 0; i < c.size; i++) m[retptr + i] = parseInt(c.bytes.substr(2 * i, 2), 16);
        rec.retptr = retptr;
        const x = args[2];
        if (data.abi === "spec" && typeof x === "number" && log.allocs.some(a => a[0] === x)) { rec.ptr = x; rec.bytes = hex(x, c.size); }
      } return 0; };
    const value = eval("(" + c.js + ")");
    const Cls = c.struct ? (await import("./" + c.struct + ".mjs"))[c.struct] : null;
    const got = hub["opt" + c.j](Cls && value !== null ? new Cls(value) : value);
    rec.got = canon(got); rec.allocs = log.allocs.slice(); rec.frees = log.frees.slice();
  } catch (e) { rec.error = String(e && e.stack || e).slice(0, 500); }
  oresults.push(rec);
}
console.log(JSON.stringify({ structs: results, options: oresults }));
'''


def slice_paths(structs, k, layout, base=0, prefix=""):
    """[(offset of the {ptr,len} pair, element size, value accessor path)] for every slice reachable without crossing an option"""
    out = []
    lay = layout["S%d" % k]
    for i, f in enumerate(structs[k]):
        off = base + lay["fields"][i][0]
        if f[0] == "slice":
            out.append((off, {"u8": 1, "u16": 2, "f64": 8, "i32": 4, "str8": 1, "str16": 2, "DiplomatChar": 4}[f[1]], prefix + "%d" % i, f))
        elif f[0] == "struct":
            out += slice_paths(structs, f[1], layout, off, prefix + "%d." % i)
    return out


def value_at(v, path):
    for p in path.split("."):
        v = v[int(p)]
    return v


def slice_bytes(f, v):
    import struct as st
    if f[1] == "str8":
        return v.encode("utf-8")
    if f[1] == "str16":
        return v.encode("utf-16-le")
    if f[1] == "f64":
        return b"".join(st.pack("<d", x) for x in v)
    w = {"u8": "B", "u16": "H", "i32": "i", "DiplomatChar": "I"}[f[1]]
    return b"".join(st.pack("<" + w, x) for x in v)


def field_masks(structs, k, layout, base=0):
    """byte ranges that must match exactly: every scalar leaf except slice pointers; option payload bytes only when Some."""
    out = []
    lay = layout["S%d" % k]
    for i, f in enumerate(structs[k]):
        off = base + lay["fields"][i][0]
        out.append((off, f, i))
    return out


def compare_bytes(structs, k, layout, v, got_hex, ref_hex, base=0, path="S"):
    """-> list of mismatch descriptions between what JS wrote and rustc's bytes (slice pointers excluded, None payloads excluded)"""
    errs = []
    lay = layout["S%d" % k]
    for i, f in enumerate(structs[k]):
        off = base + lay["fields"][i][0]
        size = lay["fields"][i][1]
        errs += cmp_field(structs, f, v[i], layout, got_hex, ref_hex, off, size, "%s.f%d" % (path, i))
    return errs


def cmp_field(structs, f, v, layout, got, ref, off, size, path):
    def rng_(a, n):
        return got[2 * a:2 * (a + n)], ref[2 * a:2 * (a + n)]
    if f[0] == "slice":
        g, r = rng_(off + 4, 4)
        return [] if g == r else ["%s.len at offset %d: JS wrote %s, rustc has %s" % (path, off + 4, g, r)]
    if f[0] == "struct":
        return compare_bytes(structs, f[1], layout, v, got, ref, off, path)
    if f[0] == "opt":
        isz, ial = inner_size_align(structs, f[1], layout)
        g, r = rng_(off + isz, 1)
        errs = [] if g == r else ["%s: option flag byte at offset %d: JS left %s, rustc has %s (%s)" % (path, off + isz, g, r, "None" if v is None else "Some")]
        if v is not None:
            errs += cmp_field(structs, f[1], v[1], layout, got, ref, off, isz, path + ".some")
        return errs
    g, r = rng_(off, size)
    return [] if g == r else ["%s at offset %d (%d bytes): JS wrote %s, rustc has %s" % (path, off, size, g, r)]


def scalar_return(structs, k, layout, ref_hex):
    """a struct that transitively holds exactly one scalar is returned by value: what the export returns (number / BigInt string)"""
    import struct as st
    lay = layout["S%d" % k]
    leaves = []
    for i, f in enumerate(structs[k]):
        leaves += scalars(structs, f, layout, lay["fields"][i][0], "f%d" % i)
    if len(leaves) != 1 or leaves[0][3] in ("unionslot", "flag"):
        return None
    off, size, align, kind, path = leaves[0]
    chunk = bytes.fromhex(ref_hex)[off:off + size]
    if kind == "f32":
        return st.unpack("<f", chunk)[0]
    if kind == "f64":
        return st.unpack("<d", chunk)[0]
    # what wasm hands to JS: integers narrower than 32 bits are sign/zero-extended according to their Rust type, i32 arrives as a
    # signed number (so a u32 >= 2^31 shows up negative: the documented "large u32" quirk), i64 as a signed BigInt
    f = structs[k][0]
    while f[0] == "struct":
        f = structs[f[1]][0]
    signed = PRIMS[f[1]][1] if f[0] == "prim" else (f[0] == "enum")
    if kind == "i64":
        return str(int.from_bytes(chunk, "little", signed=True))
    n = int.from_bytes(chunk, "little", signed=bool(signed))
    n &= 0xFFFFFFFF
    return n - (1 << 32) if n >= 1 << 31 else n


def expected_scalar_args(structs, k, layout, v, ref_hex):
    """legacy ABI: expected flattened argument values from rustc's bytes + the slot model"""
    import struct as st
    raw = bytes.fromhex(ref_hex)
    out = []
    for s in legacy_slots(structs, k, layout):
        if s[0] == "pad":
            out.append(("pad", None))
            continue
        _, path, size, kind, off = s
        chunk = raw[off:off + size]
        if kind == "f32":
            out.append((path, ("f32", st.unpack("<f", chunk)[0])))
        elif kind == "f64":
            out.append((path, st.unpack("<d", chunk)[0]))
        elif path.endswith(".ptr"):
            out.append((path, "anyptr"))
        else:
            out.append((path, ("int", size, int.from_bytes(chunk, "little"))))
    return out


STAT_KEYS = ("structs", "values", "write_checks_spec", "flatten_checks_legacy", "read_checks", "receive_buffers_checked", "option_param_checks")

def same(a, b):
    if isinstance(b, float) and isinstance(a, (int, float)):
        return a == b or (a != a and b != b)
    if isinstance(b, dict):
        return isinstance(a, dict) and set(a) == set(b) and all(same(a[k], b[k]) for k in b)
    if isinstance(b, list):
        return isinstance(a, list) and len(a) == len(b) and all(same(x, y) for x, y in zip(a, b))
    if isinstance(b, bool) or isinstance(a, bool):
        return a is b or a == b and type(a) == type(b)
    return a == b


def e2e_wrapper_prog(seed, i):
    """single-scalar wrapper structs (and wrappers of wrappers) over every primitive: the shapes the wasm C ABI passes and returns as a bare
    scalar, where width and sign of the value are decided by the binding alone; plus two-scalar neighbours. For the real-wasm32 leg."""
    import spec
    rng = random.Random("c08wrap/%s/%s" % (seed, i))
    prog = spec.Program("p%d" % i)
    mod = spec.Module("ffi")
    prog.modules.append(mod)
    op = spec.Opaque("Hub")
    op.methods.append(spec.Method("make", None, [("seed", ("prim", "u32"))], ("obox", "Hub", False)))
    prims = ["bool", "u8", "i8", "u16", "i16", "u32", "i32", "u64", "i64", "f32", "f64", "usize", "isize", "DiplomatChar"]
    rng.shuffle(prims)
    items = []
    # the other two kinds of scalar: a C-like enum and a pointer to an opaque (borrowed, optional, boxed in an out-struct)
    en = spec.Enum("En0", [("Va", None), ("Vb", 5), ("Vc", -2), ("Vd", 2147483647)])
    we = spec.Struct("We", [("e", ("enum", "En0"))])
    wwe = spec.Struct("Wwe", [("inner", ("struct", "We"))])
    wo = spec.Struct("Wo", [("o", ("oref", "Hub", False, "a", False))])
    wo.lifetimes = ["a"]
    woo = spec.Struct("Woo", [("o", ("oref", "Hub", False, "a", True))])
    woo.lifetimes = ["a"]
    outb = spec.Struct("OutB", [("b", ("obox", "Hub", False))])
    outb.out, outb.kind = True, "outstruct"
    # wrappers of wrappers among *out*-structs (a separate arm of the type definition in the JS generator)
    outp = spec.Struct("OutP", [("raw", ("prim", rng.choice(["i16", "i8", "u16", "bool"])))])
    outpp = spec.Struct("OutPP", [("reading", ("struct", "OutP"))])
    outbb = spec.Struct("OutBB", [("inner", ("struct", "OutB"))])
    oute = spec.Struct("OutE", [("inner", ("struct", "We"))])
    for o_ in (outp, outpp, outbb, oute):
        o_.out, o_.kind = True, "outstruct"
    items += [en, we, wwe, wo, woo, outb, outp, outpp, outbb, oute]
    for o_ in (outp, outpp, outbb, oute):
        op.methods.append(spec.Method("r_" + o_.name.lower(), ("ref", None), [("n", ("prim", "u8"))], ("struct", o_.name)))
    for nm, t in (("we", ("struct", "We")), ("wwe", ("struct", "Wwe"))):
        op.methods.append(spec.Method("r_" + nm, ("ref", None), [("n", ("prim", "u8"))], t))
        op.methods.append(spec.Method("t_" + nm, ("ref", None), [("v", t), ("k", ("prim", "u16"))], ("prim", "u8")))
        op.methods.append(spec.Method("o_" + nm, ("ref", None), [("v", t)], ("opt", t, "std")))
    op.methods.append(spec.Method("t_wo", ("ref", None), [("v", ("struct", "Wo")), ("k", ("prim", "u16"))], ("prim", "u8"), lifetimes=["a"]))
    op.methods.append(spec.Method("t_woo", ("ref", None), [("v", ("struct", "Woo")), ("k", ("prim", "u16"))], ("prim", "u8"), lifetimes=["a"]))
    op.methods.append(spec.Method("r_outb", ("ref", None), [], ("struct", "OutB")))
    for k, p in enumerate(prims[:7]):
        w = spec.Struct("W%d" % k, [("f0", ("prim", p))])
        items.append(w)
        t = ("struct", w.name)
        if k % 2 == 0:
            nw = spec.Struct("N%d" % k, [("inner", t)])
            items.append(nw)
            t = ("struct", nw.name) if rng.random() < 0.7 else t
        op.methods.append(spec.Method("r%d" % k, ("ref", None), [("n", ("prim", "u8"))], t))
        op.methods.append(spec.Method("t%d" % k, ("ref", None), [("v", t)], ("prim", p)))
        op.methods.append(spec.Method("o%d" % k, ("ref", None), [("v", t)], ("opt", t, "std")))
        pair = spec.Struct("P%d" % k, [("a", ("prim", p)), ("b", ("prim", rng.choice(prims)))])
        items.append(pair)
        op.methods.append(spec.Method("p%d" % k, ("ref", None), [("v", ("struct", pair.name))], ("struct", pair.name)))
    mod.items = items + [op]
    for t_ in mod.items:
        for m_ in t_.methods:
            m_.owner = t_
    return prog


def arm_mismatch(a, b):
    """does the value read back disagree with the stored one about *which arm* of some option is live?"""
    if (a is None) != (b is None):
        return True
    if isinstance(b, dict) and isinstance(a, dict):
        return any(arm_mismatch(a.get(k), b[k]) for k in b)
    if isinstance(b, list) and isinstance(a, list) and len(a) == len(b):
        return any(arm_mismatch(x, y) for x, y in zip(a, b))
    return False


def run_batch(seedkey, bi, per=14, nval=4, struct_gen=None):
    rng = random.Random("%s/%s" % (seedkey, bi))
    structs = (struct_gen or gen_structs)(rng, per)
    d = toolrun.fresh_dir(toolrun.workdir("c08", "b%d" % bi))
    res = {"viol": [], "inconc": [], "st": dict.fromkeys(STAT_KEYS, 0), "shapes": set()}
    values = []
    for k, fields in enumerate(structs):
        ctx = {"ptr": 64 * k}
        values.append([[gen_value(rng, structs, f, ctx) for f in fields] for _ in range(nval)])
    pls = opt_payloads(structs)
    ovalues = []
    for inner in pls:
        ctx = {"ptr": 0}
        ovalues.append([None] + [("some", gen_value(rng, structs, inner, ctx)) for _ in range(3)])
    open(os.path.join(d, "omirror.rs"), "w").write(opt_mirror_source(structs, ovalues))
    rc, o, e = run(["rustc", "--edition", "2021", "-O", "-o", os.path.join(d, "omirror"), os.path.join(d, "omirror.rs")], timeout=300)
    if rc != 0:
        res["inconc"].append("option mirror does not compile: " + e[:400])
        return res
    rc, o, e = run([os.path.join(d, "omirror")], timeout=60)
    olayout = json.loads(o)
    # ground truth: rustc lays the mirrors out
    open(os.path.join(d, "mirror.rs"), "w").write(mirror_source(structs, values))
    rc, o, e = run(["rustc", "--edition", "2021", "-O", "-o", os.path.join(d, "mirror"), os.path.join(d, "mirror.rs")], timeout=300)
    if rc != 0:
        res["inconc"].append("mirror does not compile: " + e[:400])
        return res
    rc, o, e = run([os.path.join(d, "mirror")], timeout=60)
    layout = json.loads(o)
    # real wasm32: calling convention of every take/give from rustc's IR, layout from the instantiated module
    import wasm32
    open(os.path.join(d, "probe.rs"), "w").write(probe_source(structs))
    rc, e = wasm32.compile_nostd(os.path.join(d, "probe.rs"), os.path.join(d, "probe"))
    if rc != 0:
        res["inconc"].append("wasm32 probe does not compile: " + e[-400:])
        return res
    abi = parse_ir(open(os.path.join(d, "probe.ll")).read())
    open(os.path.join(d, "lay.mjs"), "w").write(WASM_LAYOUT_JS)
    rc, o, e = run(["node", os.path.join(d, "lay.mjs"), os.path.join(d, "probe.wasm"), json.dumps([len(f) for f in structs])], timeout=60)
    if rc != 0:
        res["inconc"].append("cannot instantiate the wasm32 probe: " + e[-300:])
        return res
    real = json.loads(o)
    for k in range(len(structs)):
        lay = layout["S%d" % k]
        rl = real["S%d" % k]
        if (lay["size"], lay["align"], [f[0] for f in lay["fields"]]) != (rl["size"], rl["align"], rl["offsets"]):
            res["inconc"].append("host mirror layout of S%d differs from the real wasm32 layout (harness): %s vs %s" % (k, lay, rl))
            return res
        if k not in abi or "param" not in abi[k] or "ret" not in abi[k]:
            res["inconc"].append("could not read the wasm32 calling convention of S%d from the IR" % k)
            return res
    src = os.path.join(d, "lib.rs")
    open(src, "w").write(bridge_source(structs))
    for abi_name in ("spec", "legacy"):
        out = os.path.join(d, abi_name)
        rc, o, e = toolrun.run_tool("js", src, out, configs=["js.abi=%s" % abi_name])
        kind, det = toolrun.classify_tool(rc, e)
        if kind != "ok":
            res["inconc"].append("tool js (%s): %s %s" % (abi_name, kind, str(det)[:200]))
            continue
        cases = []
        for k, fields in enumerate(structs):
            lay = layout["S%d" % k]
            sps = slice_paths(structs, k, layout)
            for j, v in enumerate(values[k]):
                cases.append({"id": "S%d#%d" % (k, j), "k": k, "struct": "S%d" % k, "size": lay["size"], "js": js_lit(structs, ("struct", k), v),
                              "scalar_ret": scalar_return(structs, k, layout, lay["values"][j]),
                              "bytes": lay["values"][j], "slicefields": [[off, esz] for off, esz, p, f in sps],
                              "slicedata": [[off, slice_bytes(f, value_at(v, p)).hex()] for off, esz, p, f in sps]})
        fieldnames = {"S%d" % k: {"f%d" % i: 1 for i in range(len(f))} for k, f in enumerate(structs)}
        optcases = []
        for j, inner in enumerate(pls):
            ol = olayout["O%d" % j]
            for vi, v in enumerate(ovalues[j]):
                optcases.append({"id": "O%d#%d" % (j, vi), "j": j, "size": ol["size"], "bytes": ol["values"][vi],
                                 "js": "null" if v is None else js_lit(structs, inner, v[1]), "struct": "S%d" % inner[1] if inner[0] == "struct" else None})
        json.dump({"abi": abi_name, "cases": cases, "optcases": optcases, "fieldnames": fieldnames}, open(os.path.join(out, "vf_data.json"), "w"))
        open(os.path.join(out, "diplomat-wasm.mjs"), "w").write(STUB)
        open(os.path.join(out, "vf_driver.mjs"), "w").write(DRIVER)
        rc, o, e = run(["node", os.path.join(out, "vf_driver.mjs")], timeout=120)
        if rc != 0:
            res["inconc"].append("node driver failed (%s): %s" % (abi_name, e[-400:]))
            continue
        allrecs = json.loads(o.strip().splitlines()[-1])
        recs = {r["id"]: r for r in allrecs["structs"]}
        orecs = {r["id"]: r for r in allrecs["options"]}
        for k, fields in enumerate(structs):
            lay = layout["S%d" % k]
            if abi_name == "spec":
                res["st"]["structs"] += 1
                res["shapes"].add(tuple(f[0] + (":" + str(f[1]) if f[0] in ("prim", "slice") else (":" + f[1][0] if f[0] == "opt" else "")) for f in fields))
            sps = slice_paths(structs, k, layout)
            for j, v in enumerate(values[k]):
                cid = "S%d#%d" % (k, j)
                r = recs[cid]
                w = {"abi": abi_name, "struct": "S%d" % k, "rust": "pub struct S%d { %s }" % (k, ", ".join("f%d: %s" % (i, rs_field_ty(structs, f, False)) for i, f in enumerate(fields))),
                     "value_js": js_lit(structs, ("struct", k), v), "rustc_layout": {"size": lay["size"], "align": lay["align"], "fields(offset,size,align)": lay["fields"]},
                     "rustc_bytes": lay["values"][j], "dir": out}
                if "error" in r:
                    res["viol"].append((cid, abi_name, "generated JS throws: " + r["error"][:300], w))
                    continue
                if abi_name == "spec":
                    res["st"]["values"] += 1
                # ---- JS -> Rust
                t = r.get("take")
                direct_param = (abi[k]["param"] == "direct")      # real wasm32 (spec) convention; the legacy doc states the same single-scalar rule
                direct_ret = (abi[k]["ret"] == "direct")
                if not t:
                    res["viol"].append((cid, abi_name, "the export Hub_take%d was never called" % k, w))
                elif abi_name == "spec" and direct_param:
                    res["st"]["write_checks_spec"] += 1
                    sc = scalar_return(structs, k, layout, lay["values"][j])
                    got1 = t["args"][1:]
                    alloc_ptrs = [a[0] for a in r["take_allocs"]]
                    if len(got1) == 1 and got1[0] in alloc_ptrs and (sc is None or got1[0] != sc):
                        res["viol"].append((cid, abi_name, "JS -> Rust: rustc passes this single-scalar struct by value (one wasm scalar), the generated JS passes a pointer to a %s-byte buffer" % (
                            [a[1] for a in r["take_allocs"] if a[0] == got1[0]][0]), dict(w, js_args=got1, rustc_convention=abi[k]), "scalar-struct-indirect"))
                    elif len(got1) != 1:
                        res["viol"].append((cid, abi_name, "JS -> Rust: %d arguments passed for a struct rustc takes as one scalar" % len(got1), dict(w, js_args=got1)))
                    else:
                        gv = got1[0]
                        g = int(gv[4:]) if isinstance(gv, str) and gv.startswith("big:") else (int(gv) if isinstance(gv, bool) else gv)
                        want = int(sc) if isinstance(sc, str) else sc
                        okv = (g == want) if isinstance(want, float) else (isinstance(g, (int, float)) and int(g) & 0xFFFFFFFFFFFFFFFF == int(want) & 0xFFFFFFFFFFFFFFFF) or \
                            (isinstance(g, (int, float)) and int(g) & 0xFFFFFFFF == int(want) & 0xFFFFFFFF and abs(int(want)) < (1 << 32))
                        if isinstance(want, float):
                            import struct as st_
                            okv = g == want or st_.unpack("<f", st_.pack("<f", g))[0] == want
                        if not okv:
                            res["viol"].append((cid, abi_name, "JS -> Rust: scalar argument is %r, rustc's value is %r" % (gv, sc), dict(w, js_args=got1)))
                elif abi_name == "spec":
                    res["st"]["write_checks_spec"] += 1
                    if "bytes" not in t or t.get("ptr") not in [a[0] for a in r["take_allocs"]]:
                        res["viol"].append((cid, abi_name, "JS -> Rust: rustc takes this struct indirectly (pointer to its bytes), the generated JS passes %s" % t["args"][1:], dict(w, rustc_convention=abi[k])))
                        continue
                    errs = compare_bytes(structs, k, layout, v, t["bytes"], lay["values"][j])
                    for (off, esz, p, f), (sp, sl, sdata) in zip(sps, t["slices"]):
                        want = slice_bytes(f, value_at(v, p)).hex()
                        if sl and sdata != want:
                            errs.append("slice f%s: memory at the written pointer holds %s, expected %s" % (p, sdata[:40], want[:40]))
                    al = [a for a in r["take_allocs"] if a[0] == t["ptr"]]
                    if not al or al[0][1] != lay["size"] or al[0][2] != lay["align"]:
                        errs.append("argument buffer allocated as (size, align) = %s, rustc says (%d, %d)" % (al[0][1:] if al else None, lay["size"], lay["align"]))
                    if al and [f for f in r["take_frees"] if f[0] == t["ptr"]] != [[t["ptr"], lay["size"], lay["align"]]]:
                        errs.append("argument buffer freed as %s" % [f for f in r["take_frees"] if f[0] == t["ptr"]])
                    w2 = dict(w, js_bytes=t["bytes"])
                    for m in errs[:2]:
                        res["viol"].append((cid, abi_name, "JS -> Rust: " + m, w2))
                else:
                    res["st"]["flatten_checks_legacy"] += 1
                    exp = expected_scalar_args(structs, k, layout, v, lay["values"][j])
                    got = t["args"][1:]
                    w2 = dict(w, js_args=got, model_args=[list(x) for x in exp])
                    if len(got) != len(exp):
                        res["viol"].append((cid, abi_name, "JS -> Rust: %d flattened arguments passed, the legacy wasm ABI takes %d (%s)" % (len(got), len(exp), [x[0] for x in exp]), w2))
                    else:
                        for (path, ev), gv in zip(exp, got):
                            if path == "pad" or ev == "anyptr":
                                continue
                            import struct as st_
                            if isinstance(ev, tuple) and ev[0] == "f32":
                                ok = isinstance(gv, (int, float)) and (st_.unpack("<f", st_.pack("<f", gv))[0] == ev[1] or (gv != gv and ev[1] != ev[1]))
                            elif isinstance(ev, tuple) and ev[0] == "int":
                                g = gv
                                if isinstance(gv, str) and gv.startswith("big:"):
                                    g = int(gv[4:])
                                elif isinstance(gv, bool):
                                    g = int(gv)
                                ok = (isinstance(g, int) or (isinstance(g, float) and g == int(g))) and (int(g) & ((1 << (8 * ev[1])) - 1)) == ev[2]
                            else:
                                ok = (gv == ev) or (ev != ev and gv != gv)
                            if not ok:
                                res["viol"].append((cid, abi_name, "JS -> Rust: flattened argument for %s is %r, rustc's value is %r" % (path, gv, ev), w2))
                                break
                # ---- Rust -> JS
                res["st"]["read_checks"] += 1
                expj = js_expected(structs, ("struct", k), v)
                res["st"]["receive_buffers_checked"] += 1
                ga = [a for a in r.get("give_allocs", []) if a[0] == r.get("give_retptr")]
                if direct_ret and not r.get("give_direct"):
                    res["viol"].append((cid, abi_name, "Rust -> JS: rustc returns this single-scalar struct by value, the generated JS passes a %s-byte receive buffer as an extra first argument" % (
                        ga[0][1] if ga else "?"), dict(w, rustc_convention=abi[k]), "scalar-struct-indirect"))
                    continue
                if not direct_ret and r.get("give_direct"):
                    res["viol"].append((cid, abi_name, "Rust -> JS: rustc returns this struct through a return slot, the generated JS passes none", dict(w, rustc_convention=abi[k])))
                    continue
                if not same(r.get("give"), expj):
                    tag = None
                    if direct_ret and len(fields) == 1:
                        leaf = fields[0]
                        while leaf[0] == "struct" and len(structs[leaf[1]]) == 1:
                            leaf = structs[leaf[1]][0]
                        gv = r.get("give")
                        while isinstance(gv, dict) and len(gv) == 1:
                            gv = list(gv.values())[0]
                        if leaf == ("prim", "bool") and gv in (0, 1):
                            tag = "scalar-bool"
                        elif leaf[0] == "prim" and leaf[1] in ("u32", "usize", "DiplomatChar") and isinstance(gv, int) and gv < 0:
                            tag = "large-u32"
                        elif leaf == ("prim", "u64") and isinstance(gv, str) and gv.startswith("big:-"):
                            tag = "large-u64"
                    if tag is None and arm_mismatch(r.get("give"), expj):
                        tag = "option-arm"
                    res["viol"].append((cid, abi_name, "Rust -> JS: reading rustc's bytes gives %s, the stored value is %s" % (json.dumps(r.get("give"))[:300], json.dumps(expj)[:300]), w, tag))
                if not direct_ret and (not ga or ga[0][1] != lay["size"] or ga[0][2] != lay["align"]):
                    res["viol"].append((cid, abi_name, "Rust -> JS: receive buffer allocated as (size, align) = %s, rustc says (%d, %d)" % (ga[0][1:] if ga else None, lay["size"], lay["align"]), w))
        # ---- Option<T> parameters and returns
        for j, inner in enumerate(pls):
            ol = olayout["O%d" % j]
            isz = ol["inner_size"]
            for vi, v in enumerate(ovalues[j]):
                r = orecs["O%d#%d" % (j, vi)]
                ty = rs_field_ty(structs, inner, False)
                w = {"abi": abi_name, "method": "fn opt%d(&self, x: Option<%s>) -> Option<%s>" % (j, ty, ty), "value_js": "null" if v is None else js_lit(structs, inner, v[1]),
                     "rustc_layout": {k2: ol[k2] for k2 in ("size", "align", "inner_size")}, "rustc_bytes": ol["values"][vi], "dir": out}
                res["st"]["option_param_checks"] += 1
                if "error" in r:
                    res["viol"].append(("O%d#%d" % (j, vi), abi_name, "generated JS throws: " + r["error"][:300], w, "option-param" if abi_name == "spec" else None))
                    continue
                ref = ol["values"][vi]
                if abi_name == "spec":
                    if "bytes" not in r:
                        res["viol"].append(("O%d#%d" % (j, vi), abi_name, "JS -> Rust: Option<%s> is passed indirectly by rustc (pointer to {payload, is_ok}); the generated JS passes %r as that argument" % (
                            ty, (r.get("args") or [None, None, None])[2] if len(r.get("args") or []) > 2 else r.get("args")), dict(w, js_args=r.get("args")), "option-param"))
                    else:
                        errs = []
                        if r["bytes"][2 * isz:2 * isz + 2] != ref[2 * isz:2 * isz + 2]:
                            errs.append("is_ok byte at offset %d is %s, rustc has %s" % (isz, r["bytes"][2 * isz:2 * isz + 2], ref[2 * isz:2 * isz + 2]))
                        if v is not None and inner[0] != "struct" and r["bytes"][:2 * isz] != ref[:2 * isz]:
                            errs.append("payload bytes are %s, rustc has %s" % (r["bytes"][:2 * isz], ref[:2 * isz]))
                        if v is not None and inner[0] == "struct":
                            errs += compare_bytes(structs, inner[1], layout, v[1], r["bytes"], ref)
                        al = [a for a in r["allocs"] if a[0] == r["ptr"]]
                        if not al or al[0][1] < ol["size"] or al[0][2] != ol["align"]:
                            errs.append("argument buffer allocated as (size, align) = %s, the option needs (%d, %d)" % (al[0][1:] if al else None, ol["size"], ol["align"]))
                        for m in errs[:2]:
                            res["viol"].append(("O%d#%d" % (j, vi), abi_name, "JS -> Rust: Option<%s>: %s" % (ty, m), dict(w, js_bytes=r["bytes"]), "option-param"))
                else:
                    # legacy: union as inner_size/align slots of `align` bytes, then the flag, then i8 padding
                    import struct as st_
                    raw = bytes.fromhex(ref)
                    al_ = ol["align"]
                    exp = [int.from_bytes(raw[q:q + al_], "little") for q in range(0, isz, al_)] + [raw[isz]] + [0] * (ol["size"] - isz - 1)
                    got = (r.get("args") or [])[2:]
                    gnorm = []
                    for gv in got:
                        g = int(gv[4:]) if isinstance(gv, str) and gv.startswith("big:") else (int(gv) if isinstance(gv, bool) else gv)
                        gnorm.append(g)
                    ok = len(gnorm) == len(exp)
                    if ok and v is not None:
                        for q, (g, e_) in enumerate(zip(gnorm, exp)):
                            mask = (1 << (8 * (al_ if q < isz // al_ else 1))) - 1
                            if not isinstance(g, (int, float)) or (int(g) & mask) != e_:
                                ok = q >= isz // al_ + 1   # padding values do not matter
                                if not ok:
                                    break
                    elif ok:
                        ok = isinstance(gnorm[isz // al_], (int, float)) and int(gnorm[isz // al_]) == 0
                    if not ok:
                        res["viol"].append(("O%d#%d" % (j, vi), abi_name, "JS -> Rust: Option<%s> flattened as %s, the legacy ABI takes %s (union slots, flag, i8 padding)" % (ty, got, exp), w))
                # return direction
                expj = None if v is None else js_expected(structs, inner, v[1])
                if not same(r.get("got"), expj):
                    res["viol"].append(("O%d#%d" % (j, vi), abi_name, "Rust -> JS: Option<%s> read back as %s, the stored value is %s" % (ty, json.dumps(r.get("got"))[:200], json.dumps(expj)[:200]), w,
                                        "option-arm" if arm_mismatch(r.get("got"), expj) else None))
                ga = [a for a in r.get("allocs", []) if a[0] == r.get("retptr")]
                # the buffer receives a whole DiplomatOption<T> from Rust (padding included): it must have that value's size and alignment
                if not ga or ga[0][1] != ol["size"] or ga[0][2] != ol["align"]:
                    res["viol"].append(("O%d#%d" % (j, vi), abi_name, "Rust -> JS: Option<%s> receive buffer allocated as (size, align) = %s, rustc's DiplomatOption<%s> is (%d, %d)" % (ty, ga[0][1:] if ga else None, ty, ol["size"], ol["align"]), w))
    return res


def main(tier, seed):
    chk = Check("C08", tier, seed, "exploration")
    thorough = tier == "thorough"
    nbatch = 90 if thorough else 8
    per = 14
    nval = 4
    common.build_tool()
    stats = {"structs": 0, "values": 0, "write_checks_spec": 0, "flatten_checks_legacy": 0, "read_checks": 0, "receive_buffers_checked": 0, "option_param_checks": 0}
    shapes = set()

    results = pmap(lambda bi: run_batch("c08/%s" % seed, bi, per, nval), range(nbatch))
    for bi, r in enumerate(results):
        for k, v in r["st"].items():
            stats[k] += v
        shapes |= r["shapes"]
        for m in r["inconc"]:
            chk.inconc("batch %d: %s" % (bi, m))
        seen = set()
        for tup in r["viol"]:
            cid, abi, msg, w = tup[:4]
            tag = tup[4] if len(tup) > 4 else None
            sig = (cid.split("#")[0], abi, msg.split(":")[0] + msg.split(":")[1][:25] if ":" in msg else msg[:30])
            if sig in seen:
                continue
            seen.add(sig)
            key = None
            if tag == "scalar-struct-indirect":
                fk = w["rust"].split("{")[1]
                key = {"signature": "struct whose only scalar is an enum or an opaque pointer is treated as an aggregate", "single_field_kind": "enum" if "En" in fk else ("opaque" if "Op" in fk else ("nested" if "S" in fk else "other"))}
            if tag == "option-param":
                key = {"signature": "spec ABI: Option<T> parameters (optionToBufferForCalling)"}
            if tag == "scalar-bool":
                key = {"signature": "single-bool struct returned by value is read back as 0/1 instead of false/true"}
            if tag == "large-u32":
                key = {"signature": "u32 >= 2^31 in a struct returned by value arrives negative"}
            if tag == "large-u64":
                key = {"signature": "u64 >= 2^63 in a struct returned by value arrives negative"}
            if "option flag byte" in msg and "(None)" in msg and "JS left cd" in msg:
                key = {"signature": "spec ABI: None option field leaves the flag byte unwritten"}
            chk.violation("b%d_%s_%s" % (bi, cid.replace("#", "v"), abi), "js.abi=%s struct %s: %s" % (abi, cid, msg), w, key=key)
    # ---- end-to-end: the generated JS (spec ABI) against a real wasm32 module of the same bridge (real proc macro, real runtime):
    # what Rust *receives* and what JS *reads back* for every struct that crosses, in both directions, inside whole call histories
    import api
    e2e = api.js_e2e_leg(chk, seed + 8800, 640 if thorough else 64, "c08e2e", ncalls=(40 if thorough else 30))
    e2w = api.js_e2e_leg(chk, seed + 8900, 64 if thorough else 8, "c08e2w", ncalls=130, label="js-e2e-wrappers", prepared=lambda i: e2e_wrapper_prog(seed, i))
    e2e = {k: (e2e[k] + e2w[k]) for k in e2e}
    chk.evaluations = stats["option_param_checks"] + stats["write_checks_spec"] + stats["flatten_checks_legacy"] + stats["read_checks"] + stats["receive_buffers_checked"] + e2e["calls"]
    chk.distinct = shapes
    chk.rule = ("seeded structs with 1-8 fields over 14 primitives, an enum with negative/extreme discriminants, opaque pointers (optional and not), slices of "
                "u8/u16/i32/f64 and UTF-8/UTF-16 strings, nested structs (two levels) and DiplomatOption<prim|enum|struct>, any field order; 4 values per struct "
                "(boundary integers, > 2^53 in 64-bit fields, both option arms). Ground truth = rustc on a mirror with 32-bit pointers. End-to-end leg: generated bridges "
                "(grammar generator, JS profile) compiled to wasm32 with the real proc macro and runtime (hand-built no_std sysroot, guard bytes around every "
                "allocation), driven through the generated spec-ABI JS by scripted call histories in node; the merged event log (Rust bodies log what they received "
                "and return, the driver logs what it reads back) must equal the script's prediction. distinct_nontrivial = "
                "distinct field-kind sequences.")
    chk.extra = dict(stats, batches=nbatch, end_to_end_wasm32=e2e)
    rng = random.Random("c08/%s/%s" % (seed, 0))
    ex = gen_structs(rng, 3)
    for k, f in enumerate(ex[:2]):
        chk.sample({"struct": "pub struct S%d { %s }" % (k, ", ".join("f%d: %s" % (i, rs_field_ty(ex, x, False)) for i, x in enumerate(f)))})
    chk.assumptions = ["stub wasm module (no legacy-ABI compiler exists in the sandbox): the legacy argument list is checked against an executable model of docs/wasm_abi_quirks.md, not against a compiler",
                       "layout ground truth = rustc on the host with pointer-sized fields replaced by u32, as the property's observation point states"]
    return chk.finish()
