"""C04 — borrow edges keep alive everything a returned value may borrow from.
(a) exactness: Method::borrowing_param_visitor(..).borrow_map() (public diplomat_core API, via rs/hirdump) must equal a
    30-line reference computation of Rust's outlives relation (declared bounds + bounds implied by &'a T<'b>, closure);
(b) the reference model itself is validated against rustc with borrow probes (thorough, and a sample in quick);
(c) the garbage-collected backends must attach at least those inputs: edge lists parsed from .mjs / .g.dart / .kt and
    nb::keep_alive<0,N> from the nanobind module."""
import json
import os
import random
import re

import common
import toolrun
import tooltier
from common import Check, pmap, run

PRELUDE = '''#![allow(warnings)]
#[diplomat::bridge]
pub mod ffi {
    use diplomat_runtime::{DiplomatStrSlice, DiplomatSlice, DiplomatStr, DiplomatStr16};
    #[diplomat::opaque] #[diplomat::attr(auto, error)] pub struct Op(pub u8);
    #[diplomat::opaque] #[diplomat::attr(auto, error)] pub struct OpL<'p, 'q>(pub &'p u8, pub &'q u8);
    #[diplomat::opaque] #[diplomat::attr(auto, error)] pub struct OpB<'p, 'q: 'p>(pub &'p u8, pub &'q u8);
    pub struct StL<'p, 'q> { pub a: &'p Op, pub b: DiplomatStrSlice<'q>, pub n: u8 }
    pub struct StB<'p, 'q: 'p> { pub a: Option<&'p Op>, pub b: DiplomatSlice<'q, u16>, pub c: &'q Op }
    #[diplomat::out] pub struct OutL<'p, 'q> { pub a: &'p Op, pub s: DiplomatSlice<'q, u8>, pub k: u32 }
'''

LTS = ["a", "b", "c", "d"]


class Sig:
    pass


def gen_sig(rng, k):
    s = Sig()
    s.holder = "H%d" % k
    s.impl_lts = ["h"] if rng.random() < 0.25 else []
    s.lts = LTS[:rng.randint(1, 4)]
    env = s.lts + s.impl_lts
    s.bounds = set()
    for x in s.lts:
        for y in env:
            if x != y and rng.random() < 0.22:
                s.bounds.add((x, y))
    s.implied = set()
    pick = lambda: rng.choice(env)
    maybe_anon = lambda: rng.choice(env + [None])
    # self
    r = rng.random()
    if r < 0.35:
        s.self_lt = "none"
    elif r < 0.8:
        s.self_lt = rng.choice(s.lts)
    else:
        s.self_lt = None         # &self with an anonymous lifetime
    s.params = []
    for i in range(rng.randint(0, 4)):
        name = "x%d" % i
        c = rng.random()
        if s.impl_lts and c < 0.08:
            # the holder's own type spelled `Self` behind a named reference: `&'x Self` is `&'x H<'h>`, so 'h: 'x holds by well-formedness.
            # (The gate asks for that bound to be restated and a where clause cannot be generated here, so on a correct tree these are
            # refused and dropped below; a tree that accepts them must also report the edges the bound implies: seed C04-h.)
            x = pick()
            s.params.append((name, "opaque", rng.choice(["&'%s Self", "Option<&'%s Self>"]) % x, [x, "h"], None))
            if x != "h":
                s.implied.add(("h", x))
        elif c < 0.2:
            lt = maybe_anon()
            s.params.append((name, "opaque", rng.choice(["&%s Op", "&%s mut Op", "Option<&%s Op>"]) % (("'" + lt) if lt else ""), [lt], None))
        elif c < 0.4:
            x, y, z = maybe_anon(), pick(), pick()
            s.params.append((name, "opaque", "&%s OpL<'%s, '%s>" % (("'" + x) if x else "", y, z), [x, y, z], None))
            if x:
                s.implied |= {(y, x), (z, x)}
        elif c < 0.5:
            x, y, z = maybe_anon(), pick(), pick()
            s.params.append((name, "opaque", "&%s OpB<'%s, '%s>" % (("'" + x) if x else "", y, z), [x, y, z], None))
            if y != z:
                s.bounds.add((z, y)) if z in s.lts else s.params.pop()
            if x and s.params and s.params[-1][0] == name:
                s.implied |= {(y, x), (z, x)}
        elif c < 0.7:
            lt = maybe_anon()
            ty = rng.choice(["&%s [u8]", "&%s str", "&%s DiplomatStr16", "&%s [f64]"]) % (("'" + lt) if lt else "")
            s.params.append((name, "slice", ty, [lt], None))
        elif c < 0.9:
            x, y = pick(), pick()
            # a `'static` slot borrows from nothing that needs keeping alive, and must not hide the slots after it
            if rng.random() < 0.2:
                x = "static"
            elif rng.random() < 0.1:
                y = "static"
            s.params.append((name, "struct", "StL<'%s, '%s>" % (x, y), [x, y], ["p", "q"]))
        else:
            x, y = pick(), pick()
            if x != y and y not in s.lts:
                continue
            if x != y:
                s.bounds.add((y, x))
            s.params.append((name, "struct", "StB<'%s, '%s>" % (x, y), [x, y], ["p", "q"]))
    # return type
    x, y, z = pick(), pick(), pick()
    forms = [("&'%s Op" % x, [x]), ("Option<&'%s Op>" % x, [x]), ("Box<OpL<'%s, '%s>>" % (x, y), [x, y]), ("Option<Box<OpL<'%s, '%s>>>" % (x, y), [x, y]),
             ("StL<'%s, '%s>" % (x, y), [x, y]), ("OutL<'%s, '%s>" % (x, y), [x, y]), ("&'%s [u8]" % x, [x]), ("&'%s str" % x, [x]),
             ("Result<&'%s Op, ()>" % x, [x]), ("Result<Box<OpL<'%s, '%s>>, &'%s Op>" % (x, y, z), [x, y, z]), ("Result<(), &'%s Op>" % x, [x]),
             ("Option<StL<'%s, '%s>>" % (x, y), [x, y]), ("&'%s OpL<'%s, '%s>" % (x, y, z), [x, y, z]), ("Result<OutL<'%s, '%s>, ()>" % (x, y), [x, y])]
    s.ret, s.out_lts = rng.choice(forms)
    if s.ret.startswith("&'%s OpL" % x):
        s.implied |= {(y, x), (z, x)}
    if s.impl_lts and s.self_lt not in ("none", None):
        s.implied.add(("h", s.self_lt))         # &'x self on H<'h>: 'h: 'x
    # bounds can only be declared on the method's own lifetimes
    s.bounds = {(a, b) for a, b in s.bounds if a in s.lts}
    return s


def sig_source(s):
    gens = []
    where = []
    # a third of the signatures state their bounds in a where clause instead of the generics list
    use_where = (sum(map(ord, s.holder)) + len(s.bounds)) % 3 == 0
    for lt in s.lts:
        bs = sorted(b for a, b in s.bounds if a == lt)
        if use_where and bs:
            where.append("'%s: %s" % (lt, " + ".join("'" + b for b in bs)))
            bs = []
        gens.append("'%s%s" % (lt, (": " + " + ".join("'" + b for b in bs)) if bs else ""))
    ps = []
    if s.self_lt != "none":
        ps.append("&%sself" % (("'%s " % s.self_lt) if s.self_lt else ""))
    ps += ["%s: %s" % (p[0], p[2]) for p in s.params]
    ig = "<'h>" if s.impl_lts else ""
    decl = "    #[diplomat::opaque] pub struct %s%s(pub %s);\n" % (s.holder, ig, "&'h u8" if s.impl_lts else "u8")
    return decl + "    impl%s %s%s {\n        pub fn m<%s>(%s) -> %s%s { unimplemented!() }\n    }\n" % (ig, s.holder, ig, ", ".join(gens), ", ".join(ps), s.ret,
                                                                                                          (" where " + ", ".join(where)) if where else "")


def gen_nested_structs(rng, n=4):
    """struct definitions whose fields are borrowing structs instantiated with arbitrary (also repeated) lifetimes of the outer struct"""
    out = []
    for k in range(n):
        lts = ["x", "y"] if rng.random() < 0.8 else ["x"]
        fields = []
        for i in range(rng.randint(2, 5)):
            c = rng.random()
            a, b = rng.choice(lts), rng.choice(lts)
            if c < 0.25:
                fields.append(("f%d" % i, "&'%s Op" % a, [("direct", a)]))
            elif c < 0.45:
                fields.append(("f%d" % i, "DiplomatSlice<'%s, u8>" % a, [("direct", a)]))
            elif c < 0.75:
                fields.append(("f%d" % i, "StL<'%s, '%s>" % (a, b), [("p", a), ("q", b)]))
            elif c < 0.9:
                fields.append(("f%d" % i, "StB<'%s, '%s>" % (a, a), [("p", a), ("q", a)]))
            else:
                fields.append(("f%d" % i, "u16", []))
        if not any(l == lt for _, _, uses in fields for _, l in uses for lt in lts[:1]):
            fields.append(("fz", "&'%s Op" % lts[0], [("direct", lts[0])]))
        if len(lts) == 2 and not any(l == "y" for _, _, uses in fields for _, l in uses):
            fields.append(("fy", "StL<'y, 'y>", [("p", "y"), ("q", "y")]))
        out.append(("N%d" % k, lts, fields))
    return out


def nested_source(nested):
    return "".join("    pub struct %s<%s> { %s }\n" % (name, ", ".join("'" + l for l in lts), ", ".join("pub %s: %s" % (fn, ty) for fn, ty, _ in fields)) for name, lts, fields in nested)


def nested_expected(fields, lt):
    es = set()
    for fn, ty, uses in fields:
        for kind, l in uses:
            if l == lt:
                es.add((fn, kind))
    return es


def parse_struct_getters(b, text):
    out = {}
    if b == "js":
        pairs = re.findall(r"get _fieldsForLifetime(\w)\(\) \{\s*return \[(.*?)\];", text, re.S)
    else:
        pairs = re.findall(r"get _fieldsForLifetime(\w) => \[(.*?)\];", text, re.S)
    for lt, body in pairs:
        es = set()
        for tok in [t.strip() for t in body.split(",") if t.strip()]:
            tok = tok.replace("this.#", "")
            m = re.match(r"\.\.\.(\w+)\._fieldsForLifetime(\w)$", tok)
            if m:
                es.add((m.group(1), m.group(2).lower()))
            else:
                es.add((tok, "direct"))
        out[lt.lower()] = es
    return out


def longer_than(s, lt):
    """all lifetimes forced to outlive `lt` (reflexive, transitive) under declared + implied bounds"""
    edges = s.bounds | s.implied
    seen, todo = {lt}, [lt]
    while todo:
        cur = todo.pop()
        for a, b in edges:
            if b == cur and a not in seen:
                seen.add(a)
                todo.append(a)
    return seen


def expected_edges(s):
    """{output lifetime: set of (param, kind)}"""
    out = {}
    for ol in sorted(set(s.out_lts)):
        longer = longer_than(s, ol)
        es = set()
        if s.self_lt not in ("none", None):
            lts = [s.self_lt] + s.impl_lts
            if any(l in longer for l in lts):
                es.add(("this", "opaque"))
        elif s.self_lt is None and s.impl_lts and any(l in longer for l in s.impl_lts):
            es.add(("this", "opaque"))
        for name, kind, ty, lts, defs in s.params:
            if kind == "struct":
                for use, d in zip(lts, defs):
                    if use in longer:
                        es.add((name, "struct:" + d))
            else:
                if any(l is not None and l in longer for l in lts):
                    es.add((name, kind))
        out[ol] = es
    return out


def rustc_probe_source(sigs):
    """for each signature and each (input lifetime, output lifetime) pair a fn whose body coerces &'in () to &'out ():
    rustc accepts it iff 'in: 'out is derivable from the declared bounds and the bounds implied by the parameter types."""
    src = ["#![allow(warnings)]\npub struct Op(pub u8);\npub struct OpL<'p, 'q>(pub &'p u8, pub &'q u8);\npub struct OpB<'p, 'q: 'p>(pub &'p u8, pub &'q u8);\n"
           "pub struct StL<'p, 'q> { pub a: &'p Op, pub b: &'q [u8] }\npub struct StB<'p, 'q: 'p> { pub a: &'p Op, pub b: &'q [u8] }\npub struct OutL<'p, 'q> { pub a: &'p Op, pub b: &'q [u8] }\n"
           "type DiplomatStr16 = [u16];\n"]
    index = {}
    for k, s in enumerate(sigs):
        env = s.lts + s.impl_lts
        gens = []
        for lt in env:
            bs = sorted(b for a, b in s.bounds if a == lt)
            gens.append("'%s%s" % (lt, (": " + " + ".join("'" + b for b in bs)) if bs else ""))
        ps = []
        if s.self_lt != "none":
            ps.append("this: &%s H%s" % (("'%s" % s.self_lt) if s.self_lt else "", "<'h>" if s.impl_lts else ""))
        ps += ["%s: %s" % (p[0], p[2].replace("Self", "H<'h>")) for p in s.params]
        holder = "pub struct H%s(pub %s);" % ("<'h>" if s.impl_lts else "", "&'h u8" if s.impl_lts else "u8")
        for i in env:
            for o in sorted(set(s.out_lts)):
                fn = "p_%d_%s_%s" % (k, i, o)
                src.append("mod m_%s { use super::*; %s pub fn f<%s>(%s, probe: &'%s (), _r: Option<%s>) -> &'%s () { probe } }\n" % (
                    fn, holder, ", ".join(gens), ", ".join(ps) if ps else "_u: u8", i, s.ret, o))
                index[fn] = (k, i, o)
    return "".join(src), index


def holds_borrow(s):
    """does the returned value itself keep a borrow (opaque handle, struct with borrowed fields), as opposed to a string / slice that is copied out?"""
    return any(w in s.ret for w in ("Op", "StL", "OutL"))


def parse_backend_edges(b, text, s):
    """-> ({lifetime: set of (param, kind)}, text) read from the generated method"""
    out = {}
    if b in ("js", "dart"):
        for lt, body in re.findall(r"(\w+)Edges = \[(.*?)\];", text):
            es = set()
            for tok in [t.strip() for t in body.split(",") if t.strip()]:
                m = re.match(r"\.\.\.(\w+)\._fieldsForLifetime(\w)$", tok)
                if m:
                    es.add((m.group(1), "struct:" + m.group(2).lower()))
                elif tok == "this":
                    es.add(("this", "opaque"))
                elif tok.endswith(("Slice", "Arena")):
                    es.add((re.sub(r"(Slice|Arena)$", "", tok), "slice"))
                else:
                    es.add((tok, "opaque"))
            out[lt] = es
    elif b == "kotlin":
        for lt, body in re.findall(r"val (\w+)Edges: List<Any\??> = (.*)", text):
            if lt == "self":
                # the returned opaque's own borrow: the lifetime of the reference in `&'x Op`
                m0 = re.search(r"&'(\w+) Op", s.ret)
                if not m0:
                    continue
                lt = m0.group(1)
            es = set()
            for tok in [t.strip() for t in body.split(" + ") if t.strip()]:
                m = re.match(r"listOf\((\w+)\)$", tok)
                m2 = re.match(r"(\w+)\.(\w)Edges$", tok)
                if m:
                    n = m.group(1)
                    if n == "this":
                        es.add(("this", "opaque"))
                    elif n.endswith("Mem"):
                        es.add((n[:-3], "slice"))
                    else:
                        es.add((n, "opaque"))
                elif m2:
                    es.add((m2.group(1), "struct:" + m2.group(2).lower()))
            out[lt] = out.get(lt, set()) | es
    return out


DART_VIEW_ELEMS = ["u8", "i8", "u16", "i16", "u32", "i32", "u64", "i64", "f32", "f64", "DiplomatChar", "bool", "usize", "isize"]


def dart_view_leg(rng, d, res):
    """Dart hands borrowed primitive slices out as *views* of Rust memory (`asTypedList`), so the edge list of the method is only worth
    something if the shared per-element-type helper class (`_SliceX._toDart(lifetimeEdges)`) attaches it to the view it returns. The helper
    is generated once, from whichever slice of that element type the backend meets first (seed C04-g: an owned `Box<[T]>` met first left
    the borrowed branch empty). One program per batch: owned and borrowed uses of a few element types in both meeting orders, as
    parameters, returns and struct fields; every view-returning helper must use the edges it is given."""
    elems = rng.sample(DART_VIEW_ELEMS, 4)
    types = []
    for k, el in enumerate(elems):
        owned_first = rng.random() < 0.6
        own = "    #[diplomat::opaque] pub struct %sOwner%d(pub u8);\n    impl %sOwner%d {\n        pub fn take(v: Box<[%s]>) -> u8 { unimplemented!() }\n%s    }\n" % (
            "A" if owned_first else "Z", k, "A" if owned_first else "Z", k, el,
            "        pub fn take_more(&self, n: u8, v: Box<[%s]>) -> u8 { unimplemented!() }\n" % el if rng.random() < 0.4 else "")     # (Option<Box<[T]>> aborts the Dart backend: known finding F4, C15)
        form = rng.randrange(3)
        if form == 0:
            view = "    #[diplomat::opaque] pub struct View%d(pub u8);\n    impl View%d {\n        pub fn get<'a>(&'a self) -> &'a [%s] { unimplemented!() }\n    }\n" % (k, k, el)
        elif form == 1:
            view = ("    #[diplomat::out] pub struct ViewOut%d<'a> { pub s: DiplomatSlice<'a, %s>, pub n: u8 }\n    #[diplomat::opaque] pub struct View%d(pub u8);\n"
                    "    impl View%d {\n        pub fn get<'a>(&'a self) -> ViewOut%d<'a> { unimplemented!() }\n    }\n" % (k, el, k, k, k))
        else:
            view = ("    #[diplomat::opaque] pub struct View%d(pub u8);\n    impl View%d {\n        pub fn pick<'a>(&self, x: &'a [%s]) -> Option<&'a [%s]> { unimplemented!() }\n    }\n" % (k, k, el, el))
        types.append((el, owned_first, own + view))
    # a struct field that is a *reference to an opaque carrying its own lifetime* (`&'x OpV<'y>`) borrows under both lifetimes: it must be
    # listed by the struct's _fieldsForLifetimeX and _fieldsForLifetimeY (seed C04-i: Dart listed it under the reference's lifetime only)
    nv = []
    for k in range(2):
        fl = [("r", "&'x OpV<'y>", {"x", "y"}), ("s", "&'y OpPlain", {"y"}), ("t", "DiplomatSlice<'x, u8>", {"x"}), ("u", "u16", set()), ("v", "Option<&'y OpV<'x>>", {"x", "y"})]
        rng.shuffle(fl)
        fl = fl[:rng.randint(3, 5)]
        if not any(f[0] == "r" for f in fl):
            fl.append(("r", "&'x OpV<'y>", {"x", "y"}))
        bounds = ("'y: 'x" if any(f[0] == "r" for f in fl) else "'y") + ", " + ("'x: 'y" if any(f[0] == "v" for f in fl) else "'x")
        nv.append(("NV%d" % k, fl))
        types.append((None, None, "    pub struct NV%d<'x, 'y> { %s }\n    #[diplomat::opaque] pub struct NVH%d(pub u8);\n    impl NVH%d {\n        pub fn take<%s>(s: NV%d<'x, 'y>) -> &'y OpPlain { unimplemented!() }\n    }\n" % (
            k, ", ".join("pub %s: %s" % (fn, ty) for fn, ty, _ in fl), k, k, ", ".join(sorted(bounds.split(", "), key=lambda b_: b_[1])), k)))
    types.append((None, None, "    #[diplomat::opaque] pub struct OpV<'p>(pub &'p u8);\n    #[diplomat::opaque] pub struct OpPlain(pub u8);\n"))
    dd = os.path.join(d, "dartview")
    os.makedirs(dd, exist_ok=True)
    src = os.path.join(dd, "lib.rs")
    open(src, "w").write("#![allow(warnings)]\n#[diplomat::bridge]\npub mod ffi {\n    use diplomat_runtime::{DiplomatSlice, DiplomatChar};\n" + "".join(t for _, _, t in types) + "}\n")
    rc, o, e = toolrun.run_tool("dart", src, os.path.join(dd, "out"), config_file=os.path.join(d, "cfg_dart.toml"))
    kind, det = toolrun.classify_tool(rc, e)
    if kind != "ok":
        res["inconc"].append("dart view leg: tool %s: %s" % (kind, str(det)[:200]))
        return
    text = "".join(open(os.path.join(r_, f)).read() for r_, _, fs in os.walk(os.path.join(dd, "out")) for f in sorted(fs) if f.endswith(".dart"))
    for name, fl in nv:
        fpath = os.path.join(dd, "out", name + ".g.dart")
        got = parse_struct_getters("dart", open(fpath).read()) if os.path.exists(fpath) else {}
        for lt in ("x", "y"):
            res["st"]["struct_getters_checked"] += 1
            exp = {(fn, "direct") for fn, ty, lts in fl if lt in lts}
            if not exp <= got.get(lt, set()):
                res["viol"].append((None, "dart: struct `%s<'x, 'y> { %s }`: _fieldsForLifetime%s yields %s, fields borrowing '%s are %s (missing %s)" % (
                    name, ", ".join("%s: %s" % (fn, ty) for fn, ty, _ in fl), lt.upper(), sorted(got.get(lt, set())), lt, sorted(exp), sorted(exp - got.get(lt, set())))))
    helpers = re.findall(r"final class (_Slice\w+) extends ffi\.Struct \{(.*?)\n\}\n", text, re.S)
    res["st"]["dart_view_helpers_checked"] = res["st"].get("dart_view_helpers_checked", 0)
    for name, body in helpers:
        m = re.search(r"_toDart\(core\.List<Object> (\w+)[^)]*\)\s*\{(.*?)\n  \}", body, re.S)
        if not m:
            continue
        edges, fn = m.group(1), m.group(2)
        is_view = bool(re.search(r"final r = _data\.asTypedList\(_length\);", fn))
        res["st"]["dart_view_helpers_checked"] += 1
        uses = len(re.findall(r"\b%s\b(?!\.isEmpty)" % edges, fn))
        if is_view and uses == 0:
            res["viol"].append((None, "dart: %s._toDart returns a view of Rust memory (asTypedList) but never attaches the lifetime edges it is given: the collector may free "
                                      "the owner while the view is in use (element types / owned-first in this program: %s)" % (name, [(el, of) for el, of, _ in types if el])))


def nanobind_property_leg(rng, d, res):
    """nanobind merges a getter and a setter of one property into a single `def_prop_rw` binding; a getter that returns something borrowed
    from `self` keeps its keep-alive annotation whichever of the two is declared first (seed C04-j: the setter's empty annotation replaced it)"""
    order = rng.choice(["getter-first", "setter-first"])
    ret = rng.choice(["&'a Op", "Box<OpL<'a, 'a>>", "Option<&'a Op>"])
    get = "        #[diplomat::attr(auto, getter = \"head\")]\n        pub fn get_head<'a>(&'a self) -> %s { unimplemented!() }\n" % ret
    set_ = "        #[diplomat::attr(auto, setter = \"head\")]\n        pub fn set_head(&mut self, v: u8) { unimplemented!() }\n"
    body = (get + set_) if order == "getter-first" else (set_ + get)
    dd = os.path.join(d, "nbprop")
    os.makedirs(dd, exist_ok=True)
    src = os.path.join(dd, "lib.rs")
    open(src, "w").write(PRELUDE + "    #[diplomat::opaque] pub struct Buf(pub u8);\n    impl Buf {\n" + body +
                         "        pub fn cursor<'a>(&'a self) -> &'a Op { unimplemented!() }\n    }\n}\n")
    rc, o, e = toolrun.run_tool("nanobind", src, os.path.join(dd, "out"), config_file=os.path.join(d, "cfg_nanobind.toml"))
    kind, det = toolrun.classify_tool(rc, e)
    if kind != "ok":
        res["inconc"].append("nanobind property leg: tool %s: %s" % (kind, str(det)[:200]))
        return
    txt = open(os.path.join(dd, "out", "vflib_ext.cpp")).read()
    m = re.search(r'\.def_prop_rw\("head",[^;]*?\)\s*(?=\.def|;)', txt, re.S)
    ctrl = re.search(r'\.def\("cursor",[^;]*?\)\s*(?=\.def|;)', txt, re.S)
    res["st"]["backend_edge_lists_checked"] += 1
    if not m or not ctrl:
        res["inconc"].append("nanobind property leg: binding of Buf.head / Buf.cursor not found")
        return
    if "keep_alive<0, 1>" in ctrl.group(0) and "keep_alive<0, 1>" not in m.group(0):
        res["viol"].append((None, "nanobind: property `head` (%s, getter returning `%s` borrowed from self) is bound without keep_alive<0, 1> although the plain method "
                                  "`cursor` has it: `%s`" % (order, ret, re.sub(r"\s+", " ", m.group(0))[:200])))


def main(tier, seed):
    chk = Check("C04", tier, seed, "exploration")
    thorough = tier == "thorough"
    nbatch = 220 if thorough else 24
    per = 24
    common.build_tool()
    hd = common.cargo_build_crate(common.instantiate_crate("hirdump"), "stable", bin_name="hirdump")
    stats = {"signatures": 0, "output_lifetimes": 0, "edges_expected": 0, "backend_edge_lists_checked": 0, "rustc_probe_pairs": 0, "rustc_model_disagreements": 0,
             "rejected_by_gate": 0, "struct_getters_checked": 0, "gc_calls": 0, "gc_objects_observed": 0, "gc_buffers_observed": 0, "gc_must_stay_alive_checked": 0,
             "gc_collected_unborrowed": 0, "gc_calls_without_result_object": 0, "gc_released_after_results_dropped": 0, "gc_finalizer_exceptions_observed": 0, "struct_getters_evaluated": 0, "dart_view_helpers_checked": 0}
    shapes = set()

    def one(bi):
        rng = random.Random("c04/%s/%s" % (seed, bi))
        sigs = [gen_sig(rng, k) for k in range(per)]
        nested = gen_nested_structs(rng)
        d = toolrun.fresh_dir(toolrun.workdir("c04", "b%d" % bi))
        res = {"viol": [], "inconc": [], "st": dict.fromkeys(stats, 0), "shapes": set()}
        src = os.path.join(d, "lib.rs")
        # the gate may reject a signature (a bound we did not anticipate): drop those, they are C05's business
        use_nested = True
        for attempt in range(7):
            import jsgc
            nsrc, ncases, nmusts = jsgc.nested_cases(nested) if use_nested else ("", [], {})
            open(src, "w").write(PRELUDE + nested_source(nested) + nsrc + "".join(sig_source(s) for s in sigs) + "}\n")
            rc, o, e = run([hd, src], timeout=120)
            if use_nested and re.search(r"LOWERING-ERROR NH\d+::", o):
                use_nested = False          # the gate wants something else for these holders: leave them out of this batch
                continue
            bad = set(re.findall(r"LOWERING-ERROR (\w+)::m", o))
            if rc != 0:
                res["inconc"].append("hirdump failed: " + e[-300:])
                return res
            if not bad:
                break
            res["st"]["rejected_by_gate"] += len(bad)
            sigs = [s for s in sigs if s.holder not in bad]
        else:
            res["inconc"].append("could not obtain an accepted batch")
            return res
        # ---- (b) the model vs rustc
        if thorough or bi % 4 == 0:
            psrc, index = rustc_probe_source(sigs)
            pp = os.path.join(d, "probe.rs")
            open(pp, "w").write(psrc)
            rc, o_p, e = run(["rustc", "--edition", "2021", "--crate-type", "rlib", "--error-format=short", "-o", os.path.join(d, "probe.rlib"), pp], timeout=300)
            # map error lines to probe functions through line numbers
            rejected = set()
            lines = psrc.splitlines()
            for m in re.finditer(r"probe\.rs:(\d+):\d+: error", e):
                ln = int(m.group(1)) - 1
                mm = re.search(r"mod m_(p_\d+_\w+_\w+) ", lines[ln]) if ln < len(lines) else None
                if mm:
                    rejected.add(mm.group(1))
            if rc != 0 and not rejected:
                res["inconc"].append("rustc probe file does not compile for another reason: " + e[:300])
            else:
                for fn, (k, i, o_) in index.items():
                    res["st"]["rustc_probe_pairs"] += 1
                    model_says = i in longer_than(sigs[k], o_)
                    rustc_says = fn not in rejected
                    if model_says != rustc_says:
                        res["st"]["rustc_model_disagreements"] += 1
                        res["inconc"].append("outlives model disagrees with rustc on '%s: '%s for `%s` (model %s, rustc %s)" % (i, o_, sig_source(sigs[k]).strip().splitlines()[-2].strip(), model_says, rustc_says))
            try:
                os.remove(os.path.join(d, "probe.rlib"))
            except OSError:
                pass
        # ---- (a) exactness of the borrow map
        got = {}
        lts_seen = {}
        for l in o.splitlines():
            m = re.match(r"EDGE (\w+)::m force=0 lt=(\w+) param=(\w+) kind=(\S+)", l)
            if m:
                got.setdefault((m.group(1), m.group(2)), set()).add((m.group(3), m.group(4).replace(":optional", "")))
            m = re.match(r"LT (\w+)::m force=0 lt=(\w+)", l)
            if m:
                lts_seen.setdefault(m.group(1), set()).add(m.group(2))
        by_holder = {s.holder: s for s in sigs}
        for s in sigs:
            exp = expected_edges(s)
            res["st"]["signatures"] += 1
            res["shapes"].add((len(s.lts), len(s.bounds), tuple(sorted(p[1] for p in s.params)), s.ret.split("<")[0].split("'")[0], bool(s.impl_lts), s.self_lt not in ("none", None)))
            if lts_seen.get(s.holder, set()) != set(exp):
                res["viol"].append((s, "borrow map has entries for lifetimes %s, the return type mentions %s" % (sorted(lts_seen.get(s.holder, set())), sorted(exp))))
            for ol, es in exp.items():
                res["st"]["output_lifetimes"] += 1
                res["st"]["edges_expected"] += len(es)
                g = got.get((s.holder, ol), set())
                if g != es:
                    res["viol"].append((s, "lifetime '%s: borrow analysis reports %s, Rust's outlives rules give %s (missing %s, extra %s)" % (
                        ol, sorted(g), sorted(es), sorted(es - g), sorted(g - es))))
        # ---- (c) managed backends attach at least the expected inputs
        for b in ("js", "dart", "kotlin", "nanobind"):
            out = os.path.join(d, b)
            cfgp = os.path.join(d, "cfg_%s.toml" % b)
            open(cfgp, "w").write(tooltier.STD_CONFIG[b])
            rc, o2, e2 = toolrun.run_tool(b, src, out, config_file=cfgp)
            kind, det = toolrun.classify_tool(rc, e2)
            if kind != "ok":
                res["inconc"].append("%s: tool %s: %s" % (b, kind, str(det)[:160]))
                continue
            if b == "dart":          # JS getters are evaluated in node (leg d) rather than parsed
                for name, lts, fields in nested:
                    fpath = os.path.join(out, name + (".mjs" if b == "js" else ".g.dart"))
                    got = parse_struct_getters(b, open(fpath).read()) if os.path.exists(fpath) else {}
                    for lt in lts:
                        res["st"]["struct_getters_checked"] += 1
                        exp = nested_expected(fields, lt)
                        if not exp <= got.get(lt, set()):
                            res["viol"].append((None, "%s: struct `%s<%s> { %s }`: _fieldsForLifetime%s yields %s, fields borrowing '%s are %s (missing %s)" % (
                                b, name, ", ".join("'" + l for l in lts), ", ".join("%s: %s" % (fn, ty) for fn, ty, _ in fields), lt.upper(), sorted(got.get(lt, set())), lt, sorted(exp), sorted(exp - got.get(lt, set())))))
            nbtxt = open(os.path.join(out, "vflib_ext.cpp")).read() if b == "nanobind" else None
            for s in sigs:
                exp = expected_edges(s)
                if b == "nanobind":
                    m = re.search(r'nb::class_<%s>.*?\n\s*\.def(?:_static)?\("m",[^;]*;' % s.holder, nbtxt, re.S)
                    if not m:
                        res["viol"].append((s, "nanobind: binding of %s::m not found" % s.holder))
                        continue
                    kept = set(int(x) for x in re.findall(r"nb::keep_alive<0, (\d+)>", m.group(0)))
                    base = 1 if s.self_lt == "none" else 2
                    need = set()
                    for ol, es in exp.items():
                        for pn, kind_ in es:
                            need.add(1 if pn == "this" else base + [p[0] for p in s.params].index(pn))
                    res["st"]["backend_edge_lists_checked"] += 1
                    if not holds_borrow(s):
                        continue        # strings and primitive slices are copied into Python objects
                    if not need <= kept:
                        res["viol"].append((s, "nanobind keeps arguments %s alive, the returned value may borrow from %s" % (sorted(kept), sorted(need))))
                    continue
                f = None
                for r_, _, fs in os.walk(out):
                    for fn in fs:
                        if fn in (s.holder + ".mjs", s.holder + ".g.dart", s.holder + ".kt"):
                            f = os.path.join(r_, fn)
                if not f:
                    res["viol"].append((s, "%s: file for %s not found" % (b, s.holder)))
                    continue
                text = open(f).read()
                be = parse_backend_edges(b, text, s)
                if b == "kotlin" and not holds_borrow(s):
                    continue            # Kotlin copies returned strings / primitive slices
                for ol, es in exp.items():
                    res["st"]["backend_edge_lists_checked"] += 1
                    g = be.get(ol, set())
                    if not es <= g:
                        res["viol"].append((s, "%s attaches %s to lifetime '%s of the result, which may borrow from %s (missing %s)" % (b, sorted(g), ol, sorted(es), sorted(es - g))))
                    elif es and holds_borrow(s) and len(re.findall(r"\b%sEdges\b" % ol, text)) < 2 and not (
                            b == "kotlin" and re.search(r"&'%s Op" % ol, s.ret) and len(re.findall(r"\bselfEdges\b", text)) >= 3):
                        res["viol"].append((s, "%s computes %sEdges but never hands it to the returned object" % (b, ol)))
        def nested_sig(holder, method):
            ns = Sig()
            ns.holder = holder
            name, lts, fields = [x for x in nested if x[0] == "N" + holder[2:]][0]
            ns.text = "pub struct %s<%s> { %s }  fn %s(s: %s<..>) -> &'%s Op" % (name, ", ".join("'" + l for l in lts), ", ".join("%s: %s" % (fn, ty) for fn, ty, _ in fields), method, name, method[1:])
            return ns

        # ---- (d) dynamic: V8 liveness of everything the returned object may borrow from (both JS ABIs)
        import jsgc
        sizes = jsgc.unique_sizes(sigs)
        for abi in ("legacy", "spec"):
            out = os.path.join(d, "jsgc_" + abi)
            rc, o2, e2 = toolrun.run_tool("js", src, out, config_file=os.path.join(d, "cfg_js.toml"), configs=["js.abi=%s" % abi])
            kind, det = toolrun.classify_tool(rc, e2)
            if kind != "ok":
                res["inconc"].append("js (%s) for the GC leg: tool %s: %s" % (abi, kind, str(det)[:160]))
                continue
            cases, musts = [], {}
            for s in sigs:
                c, must = jsgc.case_for(s, expected_edges, sizes[s.holder])
                cases.append(c)
                musts[(s.holder, "m")] = must
            cases += ncases
            musts.update(nmusts)
            gcases = jsgc.getter_cases(nested, ncases) if ncases else []
            jsgc.write_harness(out, cases, gcases)
            rc, o3, e3 = run(["node", "--expose-gc", os.path.join(out, "vf_gc.mjs")], timeout=600)
            if rc != 0 or not o3.strip():
                res["inconc"].append("GC driver (%s) failed: rc=%s %s" % (abi, rc, e3[-300:]))
                continue
            rep = json.loads(o3.strip().splitlines()[-1])
            res["st"]["gc_released_after_results_dropped"] += rep["released_after_results_dropped"]
            for g, gc_ in zip(rep.get("getters", []), gcases):
                if g.get("harness_error"):
                    res["inconc"].append("getter evaluation (%s) %s: %s" % (abi, g["cls"], g["harness_error"][:200]))
                    continue
                name, lts, fields = [x for x in nested if x[0] == g["cls"]][0]
                decl = "%s<%s> { %s }" % (name, ", ".join("'" + l for l in lts), ", ".join("%s: %s" % (fn, ty) for fn, ty, _ in fields))
                for lt in lts:
                    res["st"]["struct_getters_evaluated"] += 1
                    exp = set(gc_["expected"][lt])
                    got1 = set(g["before"].get(lt, []))
                    if not exp <= got1:
                        res["viol"].append((None, "js.abi=%s: struct `%s`: evaluating _fieldsForLifetime%s yields %s, fields borrowing '%s are %s (missing %s)" % (
                            abi, decl, lt.upper(), sorted(got1), lt, sorted(exp), sorted(exp - got1))))
                        continue
                    exp2 = {(x + "#2" if x in g["replaced"] else x) for x in exp}
                    got2 = set(g["after"].get(lt, []))
                    if not exp2 <= got2:
                        res["viol"].append((None, "js.abi=%s: struct `%s`: after assigning new opaques to %s in place, _fieldsForLifetime%s of the same outer object yields %s, it must yield %s (stale: %s)" % (
                            abi, decl, g["replaced"], lt.upper(), sorted(got2), sorted(exp2), sorted(exp2 - got2))))
            res["st"]["gc_finalizer_exceptions_observed"] += len(rep.get("uncaught", []))
            res.setdefault("uncaught", []).extend(rep.get("uncaught", [])[:2])
            collected_unborrowed = 0
            for rec in rep["report"]:
                s = by_holder.get(rec["holder"]) or nested_sig(rec["holder"], rec.get("method"))
                if rec.get("harness_error"):
                    res["inconc"].append("GC driver (%s) %s/%s: %s" % (abi, rec["holder"], rec["mode"], rec["harness_error"][:200]))
                    continue
                res["st"]["gc_calls"] += 1
                must = musts[(rec["holder"], rec.get("method", "m"))][rec["mode"]]
                if must and not rec["hasResult"]:
                    res["st"]["gc_calls_without_result_object"] += 1
                    continue
                mustset = {tuple(x) for x in must}
                for name, alive in rec["alive"].items():
                    res["st"]["gc_objects_observed"] += 1
                    if ("obj", name) in mustset:
                        res["st"]["gc_must_stay_alive_checked"] += 1
                        if not alive or rec["destroyed"].get(name):
                            res["viol"].append((s, "js.abi=%s, V8: after dropping every reference except the returned value and forcing GC, argument `%s` was %s although the result may borrow from it (%s arm)" % (
                                abi, name, "destroyed (its _destroy export ran)" if rec["destroyed"].get(name) else "garbage-collected", rec["mode"])))
                    elif not alive:
                        collected_unborrowed += 1
                for name, freed in rec["freed"].items():
                    res["st"]["gc_buffers_observed"] += 1
                    if ("buf", name) in mustset:
                        res["st"]["gc_must_stay_alive_checked"] += 1
                        if freed:
                            res["viol"].append((s, "js.abi=%s, V8: the wasm buffer of `%s` was handed to diplomat_free while the returned value (%s arm) is still alive and may borrow from it" % (abi, name, rec["mode"])))
            res["st"]["gc_collected_unborrowed"] += collected_unborrowed
        dart_view_leg(rng, d, res)
        nanobind_property_leg(rng, d, res)
        return res

    results = pmap(one, range(nbatch))
    for bi, r in enumerate(results):
        for k, v in r["st"].items():
            stats[k] += v
        shapes |= r["shapes"]
        for m in r["inconc"]:
            chk.inconc("batch %d: %s" % (bi, m))
        for s, msg in [v for v in r["viol"] if v[0] is None][:3]:
            chk.violation("b%d_struct" % bi, msg, {"dir": toolrun.workdir("c04", "b%d" % bi)})
        sv = [v for v in r["viol"] if v[0] is not None]
        picked, seen_cat = [], {}
        for v in sv:                      # at most two witnesses per kind of observation per batch
            cat = "v8" if "V8:" in v[1] else ("analysis" if "borrow analysis" in v[1] or "borrow map" in v[1] else v[1].split(" ")[0])
            seen_cat[cat] = seen_cat.get(cat, 0) + 1
            if seen_cat[cat] <= 2:
                picked.append(v)
        for s, msg in picked:
            if hasattr(s, "text"):          # nested-struct holder of the dynamic leg
                chk.violation("b%d_%s" % (bi, s.holder), "`%s`: %s" % (s.text, msg), {"signature": s.text, "dir": toolrun.workdir("c04", "b%d" % bi)})
                continue
            chk.violation("b%d_%s" % (bi, s.holder), "`%s`: %s" % (sig_source(s).strip().splitlines()[-2].strip(), msg),
                          {"signature": sig_source(s), "declared_bounds": sorted(s.bounds), "implied_bounds": sorted(s.implied), "expected": {k: sorted(v) for k, v in expected_edges(s).items()},
                           "dir": toolrun.workdir("c04", "b%d" % bi)})
    # ---- real memory: generated bridges on a real wasm32 module through the generated JS; whenever a method returns a reference that borrows from
    # an opaque argument the driver keeps only the returned wrapper and forces GCs, so the owner survives solely through the wrapper's lifetime
    # edges; an early DROP record or a read of freed (0xDD-filled) memory shows up in the event log
    import api
    e2e = api.js_e2e_leg(chk, seed + 4800, 320 if thorough else 40, "c04e2e", profile=dict(borrowed_returns=True), rewrap=True,
                         only=lambda r: bool(r.get("early_drops")) or any("PANIC" in x or "GUARD" in x for x in (r.get("reports") or [])), label="js-e2e-rewrap")
    stats.update({"e2e_" + k: v for k, v in e2e.items()})
    if stats["gc_calls"] and not stats["gc_collected_unborrowed"]:
        chk.inconc("GC leg: V8 never collected an argument that nothing borrows from; the liveness observations are vacuous")
    chk.evaluations = stats["struct_getters_checked"] + stats["output_lifetimes"] + stats["backend_edge_lists_checked"] + stats["rustc_probe_pairs"] + stats["gc_must_stay_alive_checked"]
    chk.distinct = shapes
    chk.rule = ("seeded method signatures over <= 4 method lifetimes (+ an impl lifetime on the receiver in a quarter of them) with random declared bounds, parameters "
                "&'x Op / &'x OpL<'y,'z> / OpB with a definition-site bound / StL<'x,'y> / StB / slices / anonymous lifetimes, returns over references, boxed "
                "lifetime-carrying opaques, borrowing structs and out-structs, Option and Result (incl. borrowing Err); 24 signatures per crate. Exactness through the "
                "public API; superset + hand-over of the edge array for js, dart, kotlin; keep_alive indices for nanobind; the outlives model is cross-checked against "
                "rustc borrow probes (every batch in thorough, every fourth in quick; a disagreement is inconclusive, never a violation). Dynamic leg: every signature is "
                "*called* through the generated JS (legacy and spec ABI) against a stub wasm module under node --expose-gc; only the returned object is kept, full GCs "
                "are forced, and every argument object (WeakRef + destructor export) and argument buffer (diplomat_free log) the result may borrow from must still be alive, "
                "for the Ok/Some arm and, where the Err type borrows, for the Err arm. Dart view leg: one program per batch with owned and borrowed primitive slices of four element types in both meeting orders; every shared slice helper whose _toDart returns a view (asTypedList) must attach the edges it is given. distinct_nontrivial = distinct "
                "(#lifetimes, #bounds, parameter kinds, return form, impl lifetime, named self) shapes.")
    chk.extra = dict(stats, batches=nbatch)
    unc = [u for r in results for u in r.get("uncaught", [])]
    if unc:
        # not a violation of this property (nothing is freed early; the buffers are simply never freed): recorded as an observation
        chk.extra["observation_finalizer_exception"] = {"sample": unc[0], "what": "CleanupArena.createWith registers the unbound method `self.free` with the FinalizationRegistry; "
                                                        "when the arena is collected the callback runs with `this === undefined` and throws (uncaught exception in node; buffers are never freed)"}
    for r in results[:1]:
        pass
    rng = random.Random("c04/%s/%s" % (seed, 0))
    ex = [gen_sig(rng, k) for k in range(3)]
    for s in ex:
        chk.sample({"signature": sig_source(s).strip().splitlines()[-2].strip(), "expected_edges": {k: sorted(v) for k, v in expected_edges(s).items()}})
    chk.assumptions = ["Dart/Kotlin/Python edges are read from generated text, not executed", "optional struct/slice parameters borrowed by the output are excluded (they crash the managed backends: C15 known finding F2)",
                       "the dynamic JS leg runs against a stub wasm module (exports return fresh pointers, receive buffers are pattern-filled): it observes the JS side's keep-alive behaviour, not Rust's"]
    return chk.finish()
