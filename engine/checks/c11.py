"""C11 — enum variants carry the same numeric value in Rust and in every binding.
Ground truth: `Variant as isize` printed by a compiled Rust program (rustc + the real macro's #[repr(C)] enum).
Observed: C and C++ by compiling and running drivers against the generated headers (also nanobind's bundled
headers), JS by executing the generated enum modules in Node, Dart/Kotlin/nanobind tables by interpreting the
generated text with a small model of each language's enum construct."""
import json
import os
import random
import re

import common
import emit_rust
import spec
import toolrun
import tooltier
from common import Check, pmap, run

STYLES = ["implicit", "explicit", "negative", "gaps", "extreme", "zero_contig", "one_contig", "mixed", "perm", "perm"]


def make_prog(seed, i):
    rng = random.Random("c11/%s/%s" % (seed, i))
    g = spec.Gen(rng, name="p%d" % i)
    prog = spec.Program("p%d" % i)
    mod = spec.Module("ffi")
    prog.modules.append(mod)
    op = spec.Opaque("Hub")
    mk = spec.Method("make", None, [("seed", ("prim", "u32"))], ("obox", "Hub", False))
    mk.attrs.append("#[diplomat::demo(default_constructor)]")
    op.methods.append(mk)
    enums = []
    for k in range(8):
        en = g.gen_enum(style=STYLES[(i * 8 + k) % len(STYLES)], n=rng.randint(1, 8))
        enums.append(en)
        m = spec.Method("t%d" % k, ("ref", None), [("e", ("enum", en.name))], ("enum", en.name))
        op.methods.append(m)
        if rng.random() < 0.4:
            em = spec.Method("same", ("val",), [], ("enum", en.name))
            en.methods.append(em)
    mod.items = enums + [op]
    rng.shuffle(mod.items)
    emit_rust.assign_abi_names(prog)
    return prog, enums


def e2e_prog(seed, i):
    """a bridge whose only values are enums: every route a discriminant can take between Rust and the generated JS (direct argument / return,
    Option and Result payloads and struct fields, which travel through wasm memory), for the real-wasm32 leg"""
    rng = random.Random("c11e2e/%s/%s" % (seed, i))
    g = spec.Gen(rng, name="p%d" % i)
    prog = spec.Program("p%d" % i)
    mod = spec.Module("ffi")
    prog.modules.append(mod)
    op = spec.Opaque("Hub")
    op.methods.append(spec.Method("make", None, [("seed", ("prim", "u32"))], ("obox", "Hub", False)))
    enums = [g.gen_enum(style=STYLES[(i * 5 + k) % len(STYLES)], n=rng.randint(1, 8)) for k in range(5)]
    enums[-1].attrs.append("#[diplomat::attr(auto, error)]")
    st = spec.Struct("Se", [("a", ("enum", enums[0].name)), ("b", ("prim", "u8")), ("c", ("enum", enums[1].name)), ("d", ("opt", ("enum", enums[2].name), "dip")),
                            ("e", ("enum", enums[3].name))])
    for k, en in enumerate(enums[:4]):
        t = ("enum", en.name)
        op.methods.append(spec.Method("t%d" % k, ("ref", None), [("e", t)], t))
        op.methods.append(spec.Method("o%d" % k, ("ref", None), [("e", ("opt", t, "std"))], ("opt", t, "std")))
        op.methods.append(spec.Method("r%d" % k, ("ref", None), [("e", t), ("n", ("prim", "u8"))], ("result", t, ("enum", enums[-1].name), "std")))
    # a struct whose only field is the enum, by value in both directions: it crosses as the bare scalar, which the binding has to
    # narrow as a *signed* 32-bit value on the way back (seed C11-i)
    wrappers = []
    for k, en in enumerate(enums[:3]):
        sw = spec.Struct("Sw%d" % k, [("only", ("enum", en.name))])
        wrappers.append(sw)
        op.methods.append(spec.Method("w%d" % k, ("ref", None), [("e", ("enum", en.name))], ("struct", sw.name)))
        op.methods.append(spec.Method("ww%d" % k, ("ref", None), [("v", ("struct", sw.name))], ("struct", sw.name)))
    op.methods.append(spec.Method("s", ("ref", None), [("v", ("struct", "Se"))], ("struct", "Se")))
    op.methods.append(spec.Method("so", ("ref", None), [("v", ("struct", "Se"))], ("opt", ("struct", "Se"), "std")))
    mod.items = enums + [st] + wrappers + [op]
    for t_ in mod.items:
        for m_ in t_.methods:
            m_.owner = t_
    return prog


def c_program(enums, cpp=False):
    if not cpp:
        src = '#include <stdio.h>\n' + "".join('#include "%s.h"\n' % e.name for e in enums) + "int main(void) {\n"
        for e in enums:
            for vn, _ in e.variants:
                src += '  printf("%s %s %%ld\\n", (long)%s_%s);\n' % (e.name, vn, e.name, vn)
        return src + "  return 0;\n}\n"
    src = '#include <stdio.h>\n' + "".join('#include "%s.hpp"\n' % e.name for e in enums) + "int main() {\n"
    for e in enums:
        for vn, _ in e.variants:
            src += '  printf("%s %s %%ld %%ld %%ld\\n", static_cast<long>(%s::%s), static_cast<long>(%s(%s::%s).AsFFI()), ' \
                   'static_cast<long>(static_cast<%s::Value>(%s::FromFFI(diplomat::capi::%s_%s))));\n' % (
                       e.name, vn, e.name, vn, e.name, e.name, vn, e.name, e.name, e.name, vn)
    return src + "  return 0;\n}\n"


JS_DRIVER = r'''
import * as rt from "./diplomat-runtime.mjs";
const names = %s;
const out = {};
for (const [en, variants] of Object.entries(names)) {
  const mod = await import("./" + en + ".mjs");
  const E = mod[en];
  out[en] = {};
  for (const v of variants) {
    const r = {};
    try { r.ffi = E[v].ffiValue; } catch (e) { r.ffi = "ERR " + e; }
    try { r.fromName = new E(v).ffiValue; } catch (e) { r.fromName = "ERR " + e; }
    try { r.viaFromValue = E.fromValue(v).ffiValue; } catch (e) { r.viaFromValue = "ERR " + e; }
    out[en][v] = r;
  }
  out[en]["#reverse"] = {};
  for (const d of %s[en]) {
    try { out[en]["#reverse"][d] = new E(rt.internalConstructor, d).value; } catch (e) { out[en]["#reverse"][d] = "ERR " + e; }
  }
}
console.log(JSON.stringify(out));
'''


def dart_model(txt, en):
    """Interpret the generated Dart enum: returns (to_native: {variant: int}, from_native: fn int -> variant or None)."""
    m = re.search(r"enum %s\b[^{]*\{(.*?)\n\}" % re.escape(en.name), txt, re.S)
    if not m:
        return None
    body = m.group(1)
    head = body.split(";", 1)[0]
    variants = [v for v in re.findall(r"^\s*([a-zA-Z_]\w*)\s*[,;]?\s*$", head + ";", re.M)]
    variants = re.findall(r"(?m)^\s*([a-zA-Z_]\w*)\s*(?:,|$)", head)
    sw = dict((a, int(b)) for a, b in re.findall(r"case (\w+):\s*return (-?\d+);", body))
    return variants, sw


def kotlin_model(txt, en):
    """-> (to_native {variant: int}, from_native {int: variant}) by interpreting the generated enum class"""
    m = re.search(r"enum class %s\(val inner: Int\) \{(.*?);" % re.escape(en.name), txt, re.S)
    if m:
        ctor = dict((a, int(b)) for a, b in re.findall(r"(\w+)\((-?\d+)\)", m.group(1)))
        fm = re.search(r"fun fromNative\(native: Int\): %s \{\s*return when \(native\) \{(.*?)else" % re.escape(en.name), txt, re.S)
        rev = dict((int(a), b) for a, b in re.findall(r"(-?\d+) -> (\w+)", fm.group(1))) if fm else {}
        if "return this.inner" not in txt:
            return None
        return ctor, rev
    m = re.search(r"enum class %s \{(.*?);" % re.escape(en.name), txt, re.S)
    if m and "return this.ordinal" in txt and re.search(r"return %s\.entries\[native\]" % re.escape(en.name), txt):
        variants = re.findall(r"(\w+)\s*(?:,|$)", m.group(1).strip())
        return {v: i for i, v in enumerate(variants)}, {i: v for i, v in enumerate(variants)}
    return None


def main(tier, seed):
    chk = Check("C11", tier, seed, "exploration")
    thorough = tier == "thorough"
    nprog = 380 if thorough else 40
    common.build_tool()
    toolrun.anchor()
    stats = {"enums": 0, "variants": 0, "backend_variant_checks": 0, "executed_c": 0, "executed_cpp": 0, "executed_js": 0, "interpreted_dart": 0,
             "interpreted_kotlin": 0, "nanobind": 0}
    styles_seen = set()

    def one(i):
        prog, enums = make_prog(seed, i)
        d = toolrun.fresh_dir(toolrun.workdir("c11", "p%d" % i))
        res = {"viol": [], "inconc": [], "n": 0, "st": dict.fromkeys(stats, 0)}
        src, cfg = tooltier.write_program(prog, d, 'lib_name = "vflib"\n[kotlin]\ndomain = "dev.vf"\n')
        # ---- ground truth from rustc
        main_rs = os.path.join(d, "main.rs")
        body = open(src).read() + "\nfn main() {\n" + "".join(
            '    println!("%s %s {}", ffi::%s::%s as isize);\n' % (e.name, vn, e.name, vn) for e in enums for vn, _ in e.variants) + "}\n"
        open(main_rs, "w").write(body)
        rc, o, e = toolrun.rustc_lib(main_rs, os.path.join(d, "truth"), crate_type="bin")
        if rc != 0:
            res["inconc"].append("rustc: " + e[-300:])
            return i, res, enums
        rc, o, e = run([os.path.join(d, "truth")], timeout=60)
        truth = {}
        for l in o.splitlines():
            a, b, c = l.split()
            truth[(a, b)] = int(c)
        os.remove(os.path.join(d, "truth"))
        for en in enums:
            res["st"]["enums"] += 1
            res["st"]["variants"] += len(en.variants)
            # the Spec's own arithmetic must agree with rustc, otherwise the generator is wrong, not diplomat
            for (vn, _), val in zip(en.variants, en.values()):
                if truth.get((en.name, vn)) != val:
                    res["inconc"].append("generator model disagrees with rustc for %s::%s" % (en.name, vn))

        def bad(b, en, vn, msg):
            res["viol"].append((b, en, vn, msg))

        def tool(b, extra=()):
            out = os.path.join(d, b)
            rc, o, e = toolrun.run_tool(b, src, out, config_file=cfg, configs=extra)
            kind, det = toolrun.classify_tool(rc, e)
            if kind != "ok":
                res["inconc"].append("%s: tool %s %s" % (b, kind, str(det)[:150]))
                return None
            return out
        # ---- C
        out = tool("c")
        if out:
            open(os.path.join(d, "e.c"), "w").write(c_program(enums))
            rc, o, e = run(["gcc", "-std=c11", "-I", out, os.path.join(d, "e.c"), "-o", os.path.join(d, "e_c")], timeout=120)
            if rc != 0:
                bad("c", "-", "-", "enum driver does not compile: " + e[:400])
            else:
                rc, o, e = run([os.path.join(d, "e_c")], timeout=30)
                res["st"]["executed_c"] += 1
                for l in o.splitlines():
                    a, b_, c = l.split()
                    res["n"] += 1
                    if truth[(a, b_)] != int(c):
                        bad("c", a, b_, "C enumerator %s_%s = %s, rustc says %d" % (a, b_, c, truth[(a, b_)]))
        # ---- C++ (and nanobind's bundled headers)
        for b in ("cpp", "nanobind"):
            out = tool(b)
            if not out:
                continue
            inc = out if b == "cpp" else os.path.join(out, "include")
            open(os.path.join(d, "e_%s.cpp" % b), "w").write(c_program(enums, cpp=True))
            rc, o, e = run(["g++", "-std=c++17", "-I", inc, os.path.join(d, "e_%s.cpp" % b), os.path.join(d, "stub_%s.o" % b), "-o", os.path.join(d, "e_" + b)], timeout=300) \
                if False else run(["g++", "-std=c++17", "-I", inc, "-c", os.path.join(d, "e_%s.cpp" % b), "-o", os.path.join(d, "e_%s.o" % b)], timeout=300)
            if rc != 0:
                bad(b, "-", "-", "enum driver does not compile: " + e[:400])
                continue
            # the driver only uses inline conversions; link with undefined native functions stubbed out
            rc, o, e = run(["g++", os.path.join(d, "e_%s.o" % b), "-Wl,--unresolved-symbols=ignore-all", "-o", os.path.join(d, "e_" + b)], timeout=120)
            if rc != 0:
                res["inconc"].append("%s: link: %s" % (b, e[:200]))
                continue
            rc, o, e = run([os.path.join(d, "e_" + b)], timeout=30)
            res["st"]["executed_cpp"] += 1
            seen_lines = set()
            if rc != 0:
                # FromFFI / AsFFI of a valid variant must not abort: the driver prints one line per variant, the first missing one is the culprit
                done = {tuple(l.split()[:2]) for l in o.splitlines() if len(l.split()) == 5}
                missing = [(en.name, vn) for en in enums for vn, _ in en.variants if (en.name, vn) not in done]
                bad(b, missing[0][0] if missing else "-", missing[0][1] if missing else "-",
                    "C++ enum driver died (exit %s) converting a valid variant: %s" % (rc, (e or "")[-200:].replace("\n", " ")))
            for l in o.splitlines():
                if len(l.split()) != 5:
                    continue
                a, vn, v1, v2, v3 = l.split()
                res["n"] += 1
                t = truth[(a, vn)]
                seen_lines.add((a, vn))
                if not (int(v1) == int(v2) == int(v3) == t):
                    bad(b, a, vn, "C++ %s::%s = %s, AsFFI = %s, FromFFI round trip = %s, rustc says %d" % (a, vn, v1, v2, v3, t))
            if rc == 0:
                for en in enums:
                    for vn, _ in en.variants:
                        if (en.name, vn) not in seen_lines:
                            bad(b, en.name, vn, "the C++ enum driver printed nothing for this variant")
            if b == "nanobind":
                txt = open(os.path.join(out, "vflib_ext.cpp")).read()
                res["st"]["nanobind"] += 1
                for en in enums:
                    for vn, _ in en.variants:
                        res["n"] += 1
                        m = re.search(r'\.value\("%s",\s*%s::(\w+)\)' % (vn, en.name), txt)
                        if not m:
                            bad(b, en.name, vn, "no nb::enum_ .value(\"%s\", ...) entry" % vn)
                        elif m.group(1) != vn:
                            bad(b, en.name, vn, "Python name %s bound to C++ enumerator %s" % (vn, m.group(1)))
        # ---- JS (and demo_gen's js/), both ABIs
        for b, sub, extra in (("js", "", ()), ("js", "", ("js.abi=spec",)), ("demo_gen", "js", ())):
            out = tool(b, extra)
            if not out:
                continue
            jsdir = os.path.join(out, sub)
            open(os.path.join(jsdir, "diplomat-wasm.mjs"), "w").write("export default {};\n")
            names = {en.name: [vn for vn, _ in en.variants] for en in enums}
            discs = {en.name: en.values() for en in enums}
            open(os.path.join(jsdir, "vf_enum_driver.mjs"), "w").write(JS_DRIVER % (json.dumps(names), json.dumps(discs)))
            rc, o, e = run(["node", os.path.join(jsdir, "vf_enum_driver.mjs")], timeout=60)
            if rc != 0:
                bad(b, "-", "-", "generated enum modules do not load in Node: " + e[:400])
                continue
            res["st"]["executed_js"] += 1
            got = json.loads(o)
            for en in enums:
                for (vn, _), val in zip(en.variants, en.values()):
                    res["n"] += 1
                    r = got[en.name][vn]
                    if not (r["ffi"] == r["fromName"] == r["viaFromValue"] == val):
                        bad(b, en.name, vn, "JS %s.%s: ffiValue=%r new(name)=%r fromValue=%r, rustc says %d" % (en.name, vn, r["ffi"], r["fromName"], r["viaFromValue"], val))
                    back = got[en.name]["#reverse"].get(str(val))
                    if back != vn:
                        bad(b, en.name, vn, "JS: value %d received from Rust converts to %r instead of %s" % (val, back, vn))
        def dart_check(out, enums):
            """interpret the generated Dart enum declarations and the conversions the use sites (Hub.t<k>) pick"""
            res["st"]["interpreted_dart"] += 1
            hub = open(os.path.join(out, "Hub.g.dart")).read()
            for k, en in enumerate(enums):
                txt = open(os.path.join(out, en.name + ".g.dart")).read()
                dm = dart_model(txt, en)
                if not dm:
                    bad("dart", en.name, "-", "enum declaration not found")
                    continue
                variants, sw = dm
                # which conversions do the use sites pick?  Hub.t<k>(e) -> E
                mm = re.search(r"\b%s t%d\(%s e\)\s*\{(.*?)\n  \}" % (en.name, k, en.name), hub, re.S)
                use = mm.group(1) if mm else ""
                to_native_kind = "index" if "e.index" in use else ("_ffi" if "e._ffi" in use else None)
                from_kind = "values[]" if re.search(r"%s\.values\[" % en.name, use) else ("firstWhere" if "firstWhere" in use else None)
                if to_native_kind is None or from_kind is None:
                    res["inconc"].append("dart: cannot find the conversions of %s in Hub.t%d" % (en.name, k))
                    continue
                for idx, ((vn, _), val) in enumerate(zip(en.variants, en.values())):
                    res["n"] += 1
                    dn = vn[0].lower() + vn[1:]
                    if dn not in variants:
                        bad("dart", en.name, vn, "variant %s missing from the Dart enum (%s)" % (dn, variants))
                        continue
                    native = variants.index(dn) if to_native_kind == "index" else sw.get(dn)
                    if native != val:
                        bad("dart", en.name, vn, "Dart sends %r for %s (via %s), rustc says %d" % (native, dn, to_native_kind, val))
                    if from_kind == "values[]":
                        back = variants[val] if 0 <= val < len(variants) else None
                    else:
                        back = next((v for v in variants if sw.get(v) == val), None)
                    if back != dn:
                        bad("dart", en.name, vn, "Dart converts received value %d to %r instead of %s (via %s)" % (val, back, dn, from_kind))
        # ---- Dart (interpreted)
        out = tool("dart")
        if out:
            dart_check(out, enums)
        # ---- Dart: a second enum with the *identifier* of the first, declared in another bridge module and renamed (types are told apart by
        # path, not by bare name: seed C11-h keyed the contiguity shortcut by identifier). The twin's numbering is of the other kind.
        e0 = enums[0]
        g2 = spec.Gen(random.Random("c11twin/%s/%s" % (seed, i)), name="tw")
        contiguous0 = e0.values() == list(range(len(e0.variants)))
        tw = g2.gen_enum(style=("gaps" if contiguous0 else "zero_contig"), n=max(2, len(e0.variants)))
        if (tw.values() == list(range(len(tw.variants)))) != contiguous0:
            import copy
            e0c = copy.deepcopy(e0)
            twc = spec.Enum(e0.name, tw.variants)
            twc.lit_styles = {}
            twc.attrs.append('#[diplomat::attr(*, rename = "Twin%s")]' % e0.name)
            hub = spec.Opaque("Hub")
            hub.methods.append(spec.Method("make", None, [("seed", ("prim", "u32"))], ("obox", "Hub", False)))
            hub.methods.append(spec.Method("t0", ("ref", None), [("e", ("enum", e0.name))], ("enum", e0.name)))
            hub.methods.append(spec.Method("t1", ("ref", None), [("e", ("raw", "crate::%s::%s" % ("aa_twin" if i % 2 else "zz_twin", e0.name)))], ("raw", "crate::%s::%s" % ("aa_twin" if i % 2 else "zz_twin", e0.name))))
            p2 = spec.Program("tw")
            m1, m2 = spec.Module("ffi"), spec.Module("aa_twin" if i % 2 else "zz_twin")
            m1.items, m2.items = [e0c, hub], [twc]
            m2.attrs.append('#[diplomat::abi_rename = "twin_{0}"]')
            p2.modules = [m1, m2]
            for t_ in (e0c, hub, twc):
                for m_ in t_.methods:
                    m_.owner = t_
            e0c.methods = []
            emit_rust.assign_abi_names(p2)
            d2 = os.path.join(d, "twin")
            os.makedirs(d2, exist_ok=True)
            src2, cfg2 = tooltier.write_program(p2, d2, "")
            rc, o, e = toolrun.run_tool("dart", src2, os.path.join(d2, "dart"), config_file=cfg2)
            kind, det = toolrun.classify_tool(rc, e)
            if kind != "ok":
                res["inconc"].append("dart twin probe: tool %s %s" % (kind, str(det)[:150]))
            else:
                res["st"]["interpreted_dart"] += 1
                shown = spec.Enum("Twin" + e0.name, tw.variants)
                dart_check(os.path.join(d2, "dart"), [e0c, shown])
        # ---- Kotlin (interpreted)
        out = tool("kotlin")
        if out:
            res["st"]["interpreted_kotlin"] += 1
            for en in enums:
                p = None
                for r_, _, fs in os.walk(out):
                    if en.name + ".kt" in fs:
                        p = os.path.join(r_, en.name + ".kt")
                km = kotlin_model(open(p).read(), en) if p else None
                if not km:
                    bad("kotlin", en.name, "-", "enum class not found")
                    continue
                ctor, rev = km
                for (vn, _), val in zip(en.variants, en.values()):
                    res["n"] += 1
                    if ctor.get(vn) != val:
                        bad("kotlin", en.name, vn, "Kotlin %s(%r), rustc says %d" % (vn, ctor.get(vn), val))
                    if rev.get(val) != vn:
                        bad("kotlin", en.name, vn, "Kotlin fromNative(%d) gives %r instead of %s" % (val, rev.get(val), vn))
        return i, res, enums

    results = pmap(one, range(nprog))
    for i, res, enums in results:
        for k, v in res["st"].items():
            stats[k] += v
        stats["backend_variant_checks"] += res["n"]
        for m in res["inconc"]:
            chk.inconc("p%d: %s" % (i, m))
        for en in enums:
            styles_seen.add((len(en.variants), tuple(en.values())))
        seen = set()
        for b, en, vn, msg in res["viol"]:
            if (b, en) in seen:
                continue
            seen.add((b, en))
            edef = next((e for e in enums if e.name == en), None)
            chk.violation("p%d_%s_%s" % (i, b, en), "program p%d backend %s enum %s::%s: %s" % (i, b, en, vn, msg),
                          {"backend": b, "enum": en, "variants": edef.variants if edef else None, "rustc_values": edef.values() if edef else None,
                           "message": msg, "dir": toolrun.workdir("c11", "p%d" % i)})
    # ---- discriminants that travel through the generated JS on a real wasm32 module: direct, Option / Result payloads, struct fields
    import api
    e2e = api.js_e2e_leg(chk, seed + 11800, 160 if thorough else 24, "c11e2e", ncalls=40, label="js-e2e-enums", prepared=lambda i: e2e_prog(seed, i))
    stats.update({"js_e2e_" + k: v for k, v in e2e.items()})
    chk.evaluations = stats["backend_variant_checks"] + e2e["calls"]
    chk.distinct = {s for s in styles_seen if len(s[1]) > 1 or s[1][0] != 0}
    chk.rule = ("8 enums per program with 1..8 variants, discriminant styles cycled over {implicit, explicit non-monotonic, negative, gaps, i32 extremes, 0-based "
                "contiguous, 1-based contiguous, mixed, non-identity permutation of 0..n-1}; every enum is used as parameter and return of a method so that "
                "conversion code is generated. Ground truth = `as isize` printed by a compiled Rust program. distinct_nontrivial = distinct discriminant vectors "
                "other than the single-variant [0]. Real-wasm32 leg: bridges whose only values are enums (5 per program, same styles), crossing as arguments, returns, "
                "Option/Result payloads and struct fields through the generated spec-ABI JS in node, event log compared with the script's prediction.")
    chk.extra = dict(stats, programs=nprog)
    for i, res, enums in results[:1]:
        for en in enums[:3]:
            chk.sample({"enum": en.name, "variants": en.variants, "rustc": en.values()})
    chk.assumptions = ["Dart and Kotlin legs interpret generated text (no toolchains): a Dart enum's `index` is its position, `values[i]` indexes by position"]
    return chk.finish()
