"""C13 — backend-conditional attributes apply exactly where their condition holds."""
import os
import re

import common
import profiles
import toolrun
import tooltier
from common import Check, pmap, run

NAMES = ["c", "cpp", "js", "dart", "kotlin", "nanobind", "demo_gen"]
FLAGS = ["option", "callbacks", "namespacing", "memory_sharing", "static_slices", "utf8_strings", "comparators", "traits"]
RENDERS_RENAME = ["cpp", "js", "dart", "nanobind", "demo_gen"]   # C ignores rename by design; Kotlin is not required to


def fstr(f):
    k = f[0]
    if k == "star":
        return "*"
    if k == "name":
        return f[1]
    if k == "supports":
        return "supports = %s" % f[1]
    if k == "not":
        return "not(%s)" % fstr(f[1])
    return "%s(%s)" % (k, ", ".join(fstr(x) for x in f[1]))


def feval(f, backend):
    k = f[0]
    if k == "star":
        return True
    if k == "name":
        return f[1] == backend or (backend == "demo_gen" and f[1] == "js")
    if k == "supports":
        return profiles.support(backend)[f[1]]
    if k == "not":
        return not feval(f[1], backend)
    if k == "any":
        return any(feval(x, backend) for x in f[1])
    return all(feval(x, backend) for x in f[1])


def atoms():
    return [("star",)] + [("name", n) for n in NAMES] + [("supports", s) for s in FLAGS]


def formula(rng, depth):
    if depth <= 1 or rng.random() < 0.25:
        return rng.choice(atoms())
    k = rng.choice(["not", "any", "all"])
    if k == "not":
        return ("not", formula(rng, depth - 1))
    n = rng.choice([1, 2, 2, 3])
    return (k, [formula(rng, depth - 1) for _ in range(n)])


def all_shallow():
    a = atoms()
    out = list(a) + [("not", x) for x in a]
    for k in ("any", "all"):
        for x in a:
            for y in a:
                out.append((k, [x, y]))
    return out


TYPE_KINDS = ["opaque", "struct", "outstruct", "enum", "opaque_enum"]       # `#[diplomat::opaque] enum` is parsed by its own constructor
KINDS = ["type-disable", "method-disable", "impl-disable", "module-disable", "type-rename", "method-rename", "impl-rename", "module-rename", "trait-disable",
         # the same payload written as several attributes with different conditions (on one item, or on the impl block and on a method in it):
         # the item is affected where *any* of the conditions holds
         "type-disable-split", "method-disable-split", "method-rename-split", "ctor-rename"]


def probe_source(probes, with_attrs):
    """probes: [(k, kind, formula)] -> lib.rs text. One opaque type P<k> with methods pa/pb per probe."""
    main, mods = [], []
    for k, kind, f in probes:
        cond = fstr(f)
        ty = "P%d" % k
        t_attr = i_attr = m_attr = mod_attr = ""
        if with_attrs:
            if kind == "type-disable":
                t_attr = "    #[diplomat::attr(%s, disable)]\n" % cond
            elif kind == "method-disable":
                m_attr = "        #[diplomat::attr(%s, disable)]\n" % cond
            elif kind == "impl-disable":
                i_attr = "    #[diplomat::attr(%s, disable)]\n" % cond
            elif kind == "module-disable":
                mod_attr = "#[diplomat::attr(%s, disable)]\n" % cond
            elif kind == "type-rename":
                t_attr = "    #[diplomat::attr(%s, rename = \"Zzrn%dt\")]\n" % (cond, k)
            elif kind == "method-rename":
                m_attr = "        #[diplomat::attr(%s, rename = \"zzrn%dm\")]\n" % (cond, k)
            elif kind == "impl-rename":
                i_attr = "    #[diplomat::attr(%s, rename = \"zzrn%di{0}\")]\n" % (cond, k)
            elif kind == "module-rename":
                mod_attr = "#[diplomat::attr(%s, rename = \"Zzrn%dq{0}\")]\n" % (cond, k)
        if with_attrs and kind.endswith("-split"):
            # (two attributes with the same payload that both apply to one backend are rejected as duplicates: split only disjoint conditions)
            disjoint = f[0] == "any" and len(f[1]) >= 2 and all(sum(1 for x in f[1] if feval(x, b_)) <= 1 for b_ in NAMES)
            parts = [fstr(x) for x in f[1]] if disjoint else [cond]
            if kind == "type-disable-split":
                t_attr = "".join("    #[diplomat::attr(%s, disable)]\n" % c_ for c_ in parts)
            elif kind == "method-disable-split":
                # first condition on the impl block, the others on the method itself (methods pa and pb share the impl: only pa gets the rest)
                if len(parts) > 1:
                    m_attr = "".join("        #[diplomat::attr(%s, disable)]\n" % c_ for c_ in parts[1:]) + "        #[diplomat::attr(%s, disable)]\n" % parts[0]
                else:
                    m_attr = "        #[diplomat::attr(%s, disable)]\n" % parts[0]
            else:
                m_attr = "".join("        #[diplomat::attr(%s, rename = \"zzrn%dm\")]\n" % (c_, k) for c_ in parts)
        # the other spellings the attribute parser documents: a quoted feature name, the call form of rename
        if k % 3 == 1:
            t_attr, i_attr, m_attr, mod_attr = [re.sub(r"supports = (\w+)", r'supports = "\1"', a) for a in (t_attr, i_attr, m_attr, mod_attr)]
        if k % 4 == 2:
            t_attr, i_attr, m_attr, mod_attr = [re.sub(r'rename = ("[^"]*")', r"rename(\1)", a) for a in (t_attr, i_attr, m_attr, mod_attr)]
        tk = TYPE_KINDS[k % len(TYPE_KINDS)]
        if k % 5 == 0 and kind in ("type-disable", "module-disable", "method-disable", "type-disable-split"):
            # a demo_gen custom function file on the probe type (read by demo_gen only): a type disabled there takes it along (seed C13-j)
            t_attr += "    #[diplomat::demo(custom_func = \"cf_%s.mjs\")]\n" % ty
        if tk == "opaque":
            decl = "    #[diplomat::opaque]\n    pub struct %s(pub u8);\n" % ty
            mk = "Box<%s> { Box::new(%s(0)) }" % (ty, ty)
            slf, slf2 = "&self, ", "&self"
        elif tk == "opaque_enum":
            decl = "    #[diplomat::opaque]\n    pub enum %s { A(u8), B }\n" % ty
            mk = "Box<%s> { Box::new(%s::B) }" % (ty, ty)
            slf, slf2 = "&self, ", "&self"
        elif tk == "enum":
            decl = "    pub enum %s { A, B }\n" % ty
            mk = "%s { %s::A }" % (ty, ty)
            slf, slf2 = "self, ", "self"
        elif tk == "struct":
            decl = "    pub struct %s { pub a: u8 }\n" % ty
            mk = "%s { %s { a: 1 } }" % (ty, ty)
            slf, slf2 = "self, ", "self"
        else:
            decl = "    #[diplomat::out]\n    pub struct %s { pub a: u8 }\n" % ty
            mk = "%s { %s { a: 1 } }" % (ty, ty)
            slf, slf2 = "", ""
        tr_decl = ""
        if kind == "trait-disable":
            # a trait next to the probe type: declared (and generated) for the backends that support traits unless the condition disables it
            tr_decl = "%s    pub trait PT%d {\n        fn tm(&self, a: u8) -> u8;\n    }\n" % (("    #[diplomat::attr(%s, disable)]\n" % cond) if with_attrs else "", k)
        c_attr = ""
        if kind == "ctor-rename":
            # a rename on a method that also carries an explicitly named constructor attribute (seed C13-i: the Dart formatter's constructor
            # path applied the rename only to constructors without a name of their own). The constructor attribute is part of both sources.
            c_attr = "        #[diplomat::attr(auto, named_constructor = \"built%d\")]\n" % k
            if with_attrs:
                c_attr += "        #[diplomat::attr(%s, rename = \"zzrn%dc\")]\n" % (cond, k)
        body = (tr_decl + ("%s%s%s    impl %s {\n        #[diplomat::demo(default_constructor)]\n" + c_attr.replace("%", "%%") +
                "        pub fn mk() -> %s\n%s        pub fn pa(%sw: &mut diplomat_runtime::DiplomatWrite) { }\n        pub fn pb(%s) -> u8 { 7 }\n    }\n"
                ) % (t_attr, decl, i_attr, ty, mk, m_attr, slf, slf2))
        if kind.startswith("module"):
            mods.append("#[diplomat::bridge]\n%spub mod pm%d {\n%s}\n" % (mod_attr, k, body))
        else:
            main.append(body)
    return "#![allow(warnings)]\n#[diplomat::bridge]\npub mod probes {\n%s}\n%s" % ("\n".join(main), "\n".join(mods))


def read_all(outdir):
    files = {}
    for root, _, fs in os.walk(outdir):
        for fn in fs:
            p = os.path.join(root, fn)
            try:
                files[os.path.relpath(p, outdir)] = open(p, encoding="utf-8", errors="replace").read()
            except OSError:
                pass
    return files


class Index:
    """word index over a backend's whole output (file contents and file names)"""

    def __init__(self, files):
        self.words = set()
        for p, t in files.items():
            self.words.update(re.findall(r"[A-Za-z0-9_]+", t))
            self.words.update(re.findall(r"[A-Za-z0-9_]+", p))
        self.zz = {w.lower() for w in self.words if "zzrn" in w.lower()}


def has_word(idx, w):
    return w in idx.words


def has_fragment(idx, frag):
    return any(frag in w for w in idx.zz)


def type_files(files, ty):
    """per-type files of `ty` (file stem equals the type name, any directory, any extension chain)"""
    out = {}
    for p, t in files.items():
        b = os.path.basename(p)
        if b == ty or b.startswith(ty + ".") or b.startswith(ty + "_binding"):
            out[p] = t
    return out


LEGACY_NAMES = {"c": "c2", "cpp": "cpp2", "js": "js2", "dart": "dart2"}


def main(tier, seed):
    chk = Check("C13", tier, seed, "exploration")
    thorough = tier == "thorough"
    common.build_tool()
    toolrun.anchor()
    rng = chk.rng("formulas")
    forms = all_shallow()                       # every formula of depth <= 2 over the alphabet (binary any/all)
    ndeep = 6000 if thorough else 500
    forms += [formula(rng, 3) for _ in range(ndeep)]
    if not thorough:
        rng.shuffle(forms)
        forms = forms[:900]
    # assign kinds round-robin so each formula gets a placement; thorough: every shallow formula x every kind
    probes = []
    k = 0
    for f in forms:
        kinds = KINDS if (thorough and len(fstr(f)) < 60 and k < 8 * 450) else [KINDS[k % len(KINDS)]]
        for kind in kinds:
            probes.append((k, kind, f))
            k += 1
    BATCH = 48
    batches = [probes[i:i + BATCH] for i in range(0, len(probes), BATCH)]
    stats = {"tool_runs": 0, "probe_backend_pairs": 0, "true_pairs": 0, "false_pairs": 0, "files_byte_compared": 0, "nm_symbols_checked": 0}
    distinct = set()

    def one(bi):
        batch = batches[bi]
        d = toolrun.fresh_dir(toolrun.workdir("c13", "b%d" % bi))
        out = {"viol": [], "inconc": [], "runs": 0, "pairs": 0, "t": 0, "f": 0, "cmp": 0, "nm": 0}
        srcs = {}
        for name, wa in (("attr", True), ("base", False)):
            os.makedirs(os.path.join(d, name))
            srcs[name] = os.path.join(d, name, "lib.rs")
            open(srcs[name], "w").write(probe_source(batch, wa))
            for k_, kind_, f_ in batch:
                if k_ % 5 == 0:
                    open(os.path.join(d, name, "cf_P%d.mjs" % k_), "w").write("export default {\n  \"P%d.custom\": { func: () => \"custom\", funcName: \"P%d.custom\", parameters: [] }\n};\n" % (k_, k_))
        # the Rust library still exports every function, attribute or not
        rc, o, e = toolrun.rustc_lib(srcs["attr"], os.path.join(d, "lib.a"))
        if rc != 0:
            out["inconc"].append("rustc rejected the probe crate: " + e[-300:])
        else:
            rc, o, e = run(["nm", "--defined-only", os.path.join(d, "lib.a")], timeout=120)
            syms = set(re.findall(r" T (\w+)", o))
            for k, kind, f in batch:
                for s in ["P%d_mk" % k, "P%d_pa" % k, "P%d_pb" % k] + (["P%d_destroy" % k] if TYPE_KINDS[k % len(TYPE_KINDS)] .startswith("opaque") else []):
                    out["nm"] += 1
                    if s not in syms:
                        out["viol"].append(("nm", k, kind, f, "-", "the compiled library no longer exports %s" % s))
            os.remove(os.path.join(d, "lib.a"))
        for b in NAMES:
            cfgp = os.path.join(d, "config_%s.toml" % b)
            open(cfgp, "w").write(tooltier.STD_CONFIG[b])
            res = {}
            for name in ("attr", "base"):
                rc, o, e = toolrun.run_tool(b, srcs[name], os.path.join(d, name, "out_" + b), config_file=cfgp)
                out["runs"] += 1
                kind_, det = toolrun.classify_tool(rc, e)
                res[name] = (kind_, e)
            if res["attr"][0] != "ok" or res["base"][0] != "ok":
                out["inconc"].append("batch %d backend %s: tool outcome %s/%s %s" % (bi, b, res["attr"][0], res["base"][0], res["attr"][1][-200:].replace("\n", " ")))
                continue
            fa = read_all(os.path.join(d, "attr", "out_" + b))
            fb = read_all(os.path.join(d, "base", "out_" + b))
            if b == "demo_gen":
                # the js/ sub-directory is produced by a nested run of the *js* backend: its conditions are js's, so it must be the very
                # output of the js run above (seed C13-h: the bundled bindings generated from the context lowered for demo_gen)
                bundled = {p[3:]: t for p, t in fa.items() if p.startswith("js/")}
                js_out = read_all(os.path.join(d, "attr", "out_js")) if os.path.isdir(os.path.join(d, "attr", "out_js")) else None
                if js_out is not None and bundled:
                    out["cmp"] += len(js_out)
                    if bundled != js_out:
                        diff = sorted(p for p in set(bundled) | set(js_out) if bundled.get(p) != js_out.get(p))
                        out["viol"].append((b, batch[0][0], "bundled-js", batch[0][2], "-", "the JS bindings demo_gen bundles under js/ differ from the js backend's output for the same source "
                                            "(%d files, e.g. %s): conditions there must evaluate as they do for js" % (len(diff), diff[:3])))
                # demo_gen's own files are the per-type demo modules and index.mjs next to it
                fa = {p: t for p, t in fa.items() if not p.startswith(("js/", "rendering/"))}
                fb = {p: t for p, t in fb.items() if not p.startswith(("js/", "rendering/"))}
            # the legacy spelling of a backend's name (`c2`, `cpp2`, `js2`, `dart2`: "the HIR backends used to be named ...") selects the same
            # backend, so every condition has to evaluate as it does under the canonical name (seed C13-g): byte-identical output
            if b in LEGACY_NAMES:
                rc, o, e = toolrun.run_tool(LEGACY_NAMES[b], srcs["attr"], os.path.join(d, "attr", "out_" + LEGACY_NAMES[b]), config_file=cfgp)
                out["runs"] += 1
                fl = read_all(os.path.join(d, "attr", "out_" + LEGACY_NAMES[b])) if rc == 0 else None
                if fl != fa:
                    diff = sorted(p for p in set(fl or {}) | set(fa) if (fl or {}).get(p) != fa.get(p))
                    out["viol"].append((b, batch[0][0], "legacy-name", batch[0][2], "-", "run as `%s` the backend %s (%d files differ from the run as `%s`, e.g. %s)" % (
                        LEGACY_NAMES[b], "fails: " + e[-200:] if rc != 0 else "evaluates the batch's conditions differently", len(diff), b, diff[:3])))
                out["cmp"] += len(fa)
            ia = Index(fa)
            for k, kind, f in batch:
                v = feval(f, b)
                out["pairs"] += 1
                out["t" if v else "f"] += 1
                ty = "P%d" % k
                if b == "demo_gen":
                    own = {p: t for p, t in fa.items() if os.path.basename(p).split(".")[0] in (ty, "Zzrn%dt" % k, "Zzrn%dq%s" % (k, ty))}
                    txt = "\n".join(own.values())
                    has_pa = bool(re.search(r"function (pa|zzrn%dm|zzrn%dipa)\(" % (k, k), txt))
                    sym = {"mk": has_pa, "pa": has_pa, "pb": has_pa, "destroy": bool(own)}
                else:
                    sym = {m: has_word(ia, "%s_%s" % (ty, m)) for m in ("mk", "pa", "pb", "destroy")}
                    if not TYPE_KINDS[k % len(TYPE_KINDS)].startswith("opaque"):
                        # no destructor for value types: "the type is there" = it has per-type files or any of its methods is used
                        sym["destroy"] = bool(type_files(fa, ty)) or sym["pb"] or sym["mk"] or kind.endswith("rename")

                def bad(msg):
                    out["viol"].append((b, k, kind0, f, v, msg))
                kind0 = kind
                if kind.endswith("-split"):
                    kind = kind[:-6]
                if kind in ("type-disable", "module-disable"):
                    present = any(sym.values()) or bool(type_files(fa, ty))
                    if b == "demo_gen" and k % 5 == 0:
                        cf = ("cf_%s.mjs" % ty) in fa or any("RenderTermini%s" % ty in t_ for p_, t_ in fa.items() if p_.endswith("index.mjs"))
                        present = present or cf
                        if not v and kind == "type-disable" and not cf:
                            bad("condition false but the custom function file of %s is not taken along" % ty)
                    if v and present:
                        bad("condition true but %s is still present (%s)" % (ty, [m for m, x in sym.items() if x] or list(type_files(fa, ty))[:2]))
                    if not v and not (sym["pa"] and sym["destroy"]):
                        bad("condition false but %s or its methods are missing" % ty)
                elif kind == "trait-disable":
                    tn = "PT%d" % k
                    present = bool(type_files(fa, tn)) or has_word(ia, "DiplomatTraitStruct_" + tn) or has_word(ia, tn)
                    if v and present:
                        bad("condition true but trait %s is still generated" % tn)
                    if not v and profiles.support(b)["traits"] and not present:
                        bad("condition false but trait %s is missing" % tn)
                    if not (sym["pa"] and sym["pb"] and sym["destroy"]):
                        bad("the attribute on trait %s changed the neighbouring type %s" % (tn, ty))
                    if not v:
                        ta, tb = type_files(fa, tn), type_files(fb, tn)
                        out["cmp"] += len(tb)
                        if ta != tb:
                            bad("condition false but the trait's files differ from the attribute-free source")
                elif kind == "method-disable":
                    if v and sym["pa"]:
                        bad("condition true but method %s_pa is still used" % ty)
                    if v and b != "demo_gen" and not (sym["pb"] and sym["destroy"]):
                        bad("condition true: sibling method/destructor of %s vanished too" % ty)
                    if not v and not sym["pa"]:
                        bad("condition false but method %s_pa is missing" % ty)
                elif kind == "impl-disable":
                    if v and (sym["pa"] or sym["pb"] or sym["mk"]):
                        bad("condition true but methods of the disabled impl of %s are still used" % ty)
                    if v and b != "demo_gen" and not sym["destroy"]:
                        bad("condition true: the type %s itself vanished (only its impl was disabled)" % ty)
                    if not v and not (sym["pa"] and sym["pb"]):
                        bad("condition false but methods of %s are missing" % ty)
                else:
                    frag = "zzrn%d%s" % (k, {"type-rename": "t", "method-rename": "m", "impl-rename": "i", "module-rename": "q", "ctor-rename": "c"}[kind])
                    seen = has_fragment(ia, frag)
                    # (demo_gen's own files receive the object as a parameter and never spell the constructor: nothing to render there)
                    if b in RENDERS_RENAME and v and not seen and not (kind == "ctor-rename" and b == "demo_gen"):
                        bad("condition true but the rename %s... is not rendered" % frag)
                    if not v and seen:
                        bad("condition false but the rename %s... shows up" % frag)
                    if not all(sym.values()) and b in ("c", "cpp"):
                        bad("rename changed which native symbols are used for %s" % ty)
                if not v:
                    # no effect where the condition is false: per-type files byte-identical to the attribute-free source
                    ta, tb = type_files(fa, ty), type_files(fb, ty)
                    out["cmp"] += len(tb)
                    if ta != tb:
                        diff = [p for p in set(ta) | set(tb) if ta.get(p) != tb.get(p)]
                        bad("condition false but output differs from the attribute-free source in %s" % diff[:3])
        return out

    results = pmap(one, range(len(batches)))
    for bi, r in enumerate(results):
        stats["tool_runs"] += r["runs"]
        stats["probe_backend_pairs"] += r["pairs"]
        stats["true_pairs"] += r["t"]
        stats["false_pairs"] += r["f"]
        stats["files_byte_compared"] += r["cmp"]
        stats["nm_symbols_checked"] += r["nm"]
        for m in r["inconc"]:
            chk.inconc(m)
        for b, k, kind, f, v, msg in r["viol"]:
            chk.violation("b%d_P%d_%s" % (bi, k, b), "%s `#[diplomat::attr(%s, ...)]` on backend %s (condition %s): %s" % (kind, fstr(f), b, v, msg),
                          {"backend": b, "kind": kind, "formula": fstr(f), "model_value": v, "probe": "P%d" % k, "batch_dir": toolrun.workdir("c13", "b%d" % bi),
                           "lib_rs": probe_source([p for p in batches[bi] if p[0] == k], True)})
    for k, kind, f in probes:
        distinct.add((kind, fstr(f)))
    chk.evaluations = stats["probe_backend_pairs"]
    chk.distinct = {d for d in distinct if d[1] != "*"}
    chk.rule = ("condition formulas: every formula of depth <= 2 over {*, 7 backend names, %d supports flags} with binary any/all (exhaustive in thorough, "
                "sampled in quick) plus seeded random depth-3 formulas; each placed as disable/rename on a probe type, one of its methods, its impl block "
                "or its bridge module; %d probes per tool run x 7 backends. Model = 12-line formula evaluator with supports= atoms read from the working "
                "tree's attr_support(). Every batch is also generated under the legacy backend names c2 / cpp2 / js2 / dart2, whose output must be byte-identical "
                "to the canonical name's. distinct_nontrivial = distinct (placement kind, formula) pairs other than `*`." % (len(FLAGS), BATCH))
    chk.exhaustive = thorough
    chk.extra = dict(stats, probes=len(probes), batches=len(batches), kinds=KINDS)
    for k, kind, f in probes[:3]:
        chk.sample({"probe": "P%d" % k, "placement": kind, "condition": fstr(f), "model": {b: feval(f, b) for b in NAMES}})
    chk.assumptions = ["backends render renames: cpp, js, dart, nanobind, demo_gen (C ignores rename by design; Kotlin only checked in the no-effect direction)",
                       "`auto` and duplicate-disable chains are not generated"]
    return chk.finish()
