"""C06 — every backend calls exactly the symbols the Rust library exports, named by the documented scheme
Type_method / Type_destroy after the nearest enclosing abi_rename pattern."""
import os
import random
import re

import common
import emit_rust
import toolrun
import tooltier
from c13 import feval, fstr
from common import Check, pmap, run

RUNTIME_OK = {"diplomat_alloc", "diplomat_free", "diplomat_is_str", "diplomat_simple_write", "diplomat_buffer_write_create",
              "diplomat_buffer_write_get_bytes", "diplomat_buffer_write_len", "diplomat_buffer_write_destroy", "diplomat_init"}
CONDS = [("star",), ("name", "c"), ("name", "cpp"), ("name", "js"), ("name", "dart"), ("name", "kotlin"), ("name", "nanobind"), ("name", "demo_gen"),
         ("not", ("name", "js")), ("not", ("name", "c")), ("any", [("name", "cpp"), ("name", "dart")]), ("supports", "callbacks"),
         ("not", ("supports", "option")), ("all", [("not", ("name", "kotlin")), ("not", ("name", "nanobind"))])]


def ar(rng):
    """either spelling of the attribute: `abi_rename = "pat"` or the call form `abi_rename("pat")`"""
    return '#[diplomat::abi_rename("%s")]' if rng.random() < 0.3 else '#[diplomat::abi_rename = "%s"]'


def apply_pat(pat, name):
    if pat is None:
        return name
    return pat.replace("{0}", name, 1) if "{0}" in pat else pat


KEYWORD_SYMBOLS = ["complex", "imaginary", "noreturn", "requires", "concept", "synchronized", "atomic_cancel", "atomic_commit", "atomic_noexcept", "char8_t",
                   "reflexpr", "co_await_x", "final", "import", "module", "override", "transaction_safe", "in", "of", "var", "let", "function", "yield", "await", "with",
                   "internal", "fun", "val", "object", "when", "open", "dynamic", "late", "required", "show", "hide", "covariant", "mixin", "get", "set", "None", "pass",
                   "lambda", "def", "elif", "nonlocal", "is", "not", "and", "or", "del", "from", "global", "raise", "except", "print", "exec", "self", "cls"]


def decorate(prog, rng, idx):
    global KEYWORDISH
    KEYWORDISH = [k for k in KEYWORD_SYMBOLS if k not in ("in", "self", "let", "yield", "await", "final", "override", "dyn", "fn", "as")]    # Rust's own keywords cannot be symbols via a string either way, keep clear of them
    """abi_rename at module / type / impl / method level in all 16 presence combinations (by idx), with and without {0};
    backend-conditional disable on methods and impls, rename on types and methods."""
    bits = idx % 16
    n = 0
    for mod in prog.modules:
        mod.abi_pat = None
        if bits & 1:
            mod.abi_pat = rng.choice(["vf_{0}", "{0}_v2", "lib_{0}_x"])
            mod.attrs.append(ar(rng) % mod.abi_pat)
        for t in mod.items:
            t.abi_pat = t.impl_pat = None
            t.impl_disable = None
            if bits & 2 and rng.random() < 0.7:
                # a full replacement is only sensible where it names one symbol: the destructor of an opaque
                t.abi_pat = rng.choice(["ty_{0}", "{0}T", "{0}"] + (["%s_free" % t.name.lower()] if t.kind == "opaque" else []))
                t.attrs.append(ar(rng) % t.abi_pat)
            if bits & 4 and t.methods and rng.random() < 0.7:
                t.impl_pat = rng.choice(["impl_{0}", "{0}_i", "{0}"])        # a bare "{0}" cancels an outer pattern
                t.impl_attrs = getattr(t, "impl_attrs", []) + [ar(rng) % t.impl_pat]
            if t.methods and rng.random() < 0.2:
                t.impl_disable = rng.choice(CONDS)
                t.impl_attrs = getattr(t, "impl_attrs", []) + ['#[diplomat::attr(%s, disable)]' % fstr(t.impl_disable)]
            if rng.random() < 0.25:
                t.attrs.append('#[diplomat::attr(%s, rename = "Rn%s")]' % (fstr(rng.choice(CONDS)), t.name))
            for m in t.methods:
                m.abi_pat = None
                m.disable = None
                if bits & 8 and rng.random() < 0.5:
                    m.abi_pat = rng.choice(["m_{0}", "{0}_m", "{0}", "full_%s_%s_%d" % (t.name, m.name, n)])
                    if rng.random() < 0.25 and KEYWORDISH:
                        # a full replacement that happens to be a word some target language reserves (an ordinary identifier for rustc and the
                        # linker): the link symbol is not an identifier the backend may "escape" (seed C06-h)
                        m.abi_pat = KEYWORDISH.pop(rng.randrange(len(KEYWORDISH)))
                    m.attrs.append(ar(rng) % m.abi_pat)
                    n += 1
                if m.name != "make" and t.impl_disable is None and rng.random() < 0.2:
                    m.disable = rng.choice(CONDS)
                    m.attrs.append('#[diplomat::attr(%s, disable)]' % fstr(m.disable))
                if rng.random() < 0.15:
                    m.attrs.append('#[diplomat::attr(%s, rename = "ren_%s")]' % (fstr(rng.choice(CONDS)), m.name))


def model(prog, backend):
    """-> (all exported symbols per the documented scheme, symbols enabled for this backend)"""
    allsyms, enabled = {}, set()
    for mod in prog.modules:
        for t in mod.items:
            for m in t.methods:
                pat = m.abi_pat or t.impl_pat or mod.abi_pat
                s = apply_pat(pat, "%s_%s" % (t.name, m.name))
                allsyms[s] = "%s::%s" % (t.name, m.name)
                off = (m.disable is not None and feval(m.disable, backend)) or (t.impl_disable is not None and feval(t.impl_disable, backend))
                if not off:
                    enabled.add(s)
            if t.kind == "opaque":
                s = apply_pat(t.abi_pat or mod.abi_pat, "%s_destroy" % t.name)
                allsyms[s] = "%s (destructor)" % t.name
                enabled.add(s)
    return allsyms, enabled


# ---- readers -------------------------------------------------------------------------------------------

PROTO = re.compile(r"^(?!\s*(?:typedef|static_assert|#|//|\*|return))[^\n;{}()=]*?\b([A-Za-z_]\w*)\s*\(([^;{}]*)\)\s*;\s*$", re.M)


def files(out, exts):
    for r, _, fs in os.walk(out):
        for f in fs:
            if f.endswith(exts):
                yield os.path.join(r, f)


def read_c(out):
    syms = set()
    for p in files(out, (".h",)):
        if os.path.basename(p) == "diplomat_runtime.h":
            continue
        txt = open(p).read()
        txt = re.sub(r"typedef struct[^;]*?\{.*?\}\s*\w+;", "", txt, flags=re.S)
        syms.update(PROTO.findall(txt) and [m[0] for m in PROTO.findall(txt)])
    return syms, set()


def read_cpp(out):
    decl, used = set(), set()
    for p in files(out, (".hpp",)):
        if os.path.basename(p) == "diplomat_runtime.hpp":
            continue
        txt = open(p).read()
        for blk in re.findall(r'extern "C" \{(.*?)\n\s*\} // extern "C"', txt, re.S):
            blk = re.sub(r"typedef struct[^;]*?\{.*?\}\s*\w+;", "", blk, flags=re.S)
            decl.update(m[0] for m in PROTO.findall(blk))
        # (a callback struct member `capi::St (*run_callback)(...)` names a return type, not a function)
        used.update(re.findall(r"capi::([A-Za-z_]\w*)\s*\((?!\s*\*)", txt))
    return decl, used


def read_js(out):
    syms = set()
    for p in files(out, (".mjs",)):
        if os.path.basename(p) in ("diplomat-runtime.mjs", "diplomat-wasm.mjs"):
            continue
        syms.update(re.findall(r"(?<![\w-])wasm\.([A-Za-z_]\w*)\s*\(", open(p).read()))
    return syms, set()


def read_dart(out):
    decl, used = set(), set()
    for p in files(out, (".dart",)):
        if os.path.basename(p) == "lib.g.dart":
            continue
        txt = open(p).read()
        decl.update(re.findall(r"symbol:\s*'([^']+)'", txt))
        used.update(re.findall(r"_DiplomatFfiUse\('([^']+)'\)", txt))
    return decl, used


def read_kotlin(out):
    syms, used = set(), set()
    for p in files(out, (".kt",)):
        if os.path.basename(p) == "Lib.kt":
            continue
        txt = open(p).read()
        for blk in re.findall(r"internal interface \w+Lib: Library \{(.*?)\n\}", txt, re.S):
            syms.update(re.findall(r"^\s*fun ([A-Za-z_]\w*)\(", blk, re.M))
        # call sites through the JNA proxy (`lib.Type_method(..)`, the Cleaner's / finalizer's `lib.Type_destroy(handle)`): a call of a
        # function the interface does not declare compiles nowhere and resolves nowhere (seed C06-g)
        used.update(re.findall(r"\blib\.([A-Za-z_]\w*)\(", txt))
    return syms, used


def read_backend(b, out):
    if b == "c":
        return read_c(out)
    if b == "cpp":
        return read_cpp(out)
    if b == "nanobind":
        return read_cpp(os.path.join(out, "include")) if os.path.isdir(os.path.join(out, "include")) else read_cpp(out)
    if b == "js":
        return read_js(out)
    if b == "demo_gen":
        return read_js(os.path.join(out, "js"))
    if b == "dart":
        return read_dart(out)
    return read_kotlin(out)


def main(tier, seed):
    chk = Check("C06", tier, seed, "exploration")
    thorough = tier == "thorough"
    nprog = 400 if thorough else 48
    common.build_tool()
    toolrun.anchor()
    # baseline: symbols every bridge crate exports regardless of its contents
    bd = toolrun.fresh_dir(toolrun.workdir("c06", "baseline"))
    open(os.path.join(bd, "lib.rs"), "w").write("#[diplomat::bridge]\npub mod ffi {\n}\n")
    rc, o, e = toolrun.rustc_lib(os.path.join(bd, "lib.rs"), os.path.join(bd, "lib.a"))
    rc, o, e = run(["nm", "--defined-only", os.path.join(bd, "lib.a")], timeout=120)
    baseline = set(re.findall(r" [TtWw] (\w+)", o))
    stats = {"tool_runs": 0, "symbols_exported": 0, "symbol_uses_checked": 0, "abi_rename_sites": 0}
    combos = set()

    def one(job):
        i, b = job
        rng = random.Random("c06/%s/%s/%s" % (seed, i, b))
        prog = tooltier.backend_program(b if b != "demo_gen" else "js", seed, i, avoid_known=True, size="small", salt="c06")
        if i % 5 == 3:
            # a bridge module nested in another bridge module that carries an abi_rename pattern: the macro expands the inner module on
            # its own, so nothing is inherited from the outer one (seed C06-i: the tool's AST started to inherit)
            import spec as spec_
            inner = spec_.Module("vf_inner")
            inner.nested_in = prog.modules[0].name
            iop = spec_.Opaque("VfInnerOp")
            for mm in (spec_.Method("make", None, [("seed", ("prim", "u32"))], ("obox", "VfInnerOp", False)), spec_.Method("peek", ("ref", None), [], ("prim", "u8"))):
                mm.owner = iop
                iop.methods.append(mm)
            inner.items = [iop]
            prog.modules.append(inner)
        decorate(prog, rng, i)
        if i % 4 == 2:
            # a fixed name (no {0}) pinned on an impl block with a single method, under whatever the module says: the impl's name is inherited
            # by its method like any other pattern (seed C06-j: only placeholder patterns were handed down)
            import spec as spec_
            pin = spec_.Opaque("VfPin")
            pm = spec_.Method("only", ("ref", None), [("x", ("prim", "u8"))], ("prim", "u32"))
            pm.owner = pin
            pin.methods.append(pm)
            pin.abi_pat, pin.impl_disable, pm.abi_pat, pm.disable = None, None, None, None
            pin.impl_pat = "pinned_sym_%d" % i
            pin.impl_attrs = [ar(rng) % pin.impl_pat]
            prog.modules[0].items.append(pin)
        if i % 5 == 3:
            outer, inner = prog.modules[0], prog.modules[-1]
            if outer.abi_pat is None:
                outer.abi_pat = "outer_{0}"
                outer.attrs.append('#[diplomat::abi_rename = "outer_{0}"]')
            if inner.abi_pat is not None and rng.random() < 0.7:
                inner.attrs = [a for a in inner.attrs if "abi_rename" not in a]
                inner.abi_pat = None
        # demo_gen's native calls live in its js/ sub-directory, which a nested run of the js backend produces
        allsyms, enabled = model(prog, "js" if b == "demo_gen" else b)
        for t, m in prog.methods():
            m.abi_name = "x"    # names are decided by the macro, not by us
        d = toolrun.fresh_dir(toolrun.workdir("c06", "p%d_%s" % (i, b)))
        # the non-default code shapes of a backend name the same symbols: Kotlin finalizers instead of Cleaners, the JS spec ABI
        variant = {"kotlin": "use_finalizers_not_cleaners = true\n", "js": "[js]\nabi = \"spec\"\n", "demo_gen": "[js]\nabi = \"spec\"\n"}.get(b, "") if i % 2 else ""
        src, cfg = tooltier.write_program(prog, d, tooltier.STD_CONFIG[b] + variant)
        res = dict(job=job, viol=[], inconc=None, nsyms=len(allsyms), nuses=0, sites=sum(1 for x in [prog.modules[0]] + list(prog.types()) if getattr(x, "abi_pat", None))
                   + sum(1 for t, m in prog.methods() if m.abi_pat) + sum(1 for t in prog.types() if t.impl_pat))
        rc, o, e = toolrun.rustc_lib(src, os.path.join(d, "lib.a"))
        if rc != 0:
            res["inconc"] = "rustc: " + e[-300:]
            return res
        rc, o, e = run(["nm", "--defined-only", os.path.join(d, "lib.a")], timeout=120)
        os.remove(os.path.join(d, "lib.a"))
        exported = set(re.findall(r" T (\w+)", o)) - baseline
        exported = {s for s in exported if not s.startswith(("_ZN", "_R", "__rust", "rust_"))}
        for s in sorted(set(allsyms) - exported):
            res["viol"].append(("export", "the documented name %s for %s is not exported by the compiled library (exports: %s)" % (s, allsyms[s], sorted(exported)[:8])))
        for s in sorted(exported - set(allsyms)):
            res["viol"].append(("export", "the compiled library exports %s, which the documented scheme does not predict" % s))
        rc, o, e = toolrun.run_tool(b, src, os.path.join(d, "out"), config_file=cfg)
        kind, det = toolrun.classify_tool(rc, e)
        if kind != "ok":
            res["inconc"] = "tool %s: %s" % (kind, str(det)[:200])
            return res
        decl, used = read_backend(b, os.path.join(d, "out"))
        refs = decl | used
        runtime = {s for s in refs if s.startswith("diplomat_")}
        for s in sorted(runtime - RUNTIME_OK):
            res["viol"].append((b, "refers to runtime symbol %s which the runtime does not export" % s))
        refs -= runtime
        res["nuses"] = len(refs)
        for s in sorted(refs - exported):
            res["viol"].append((b, "refers to native symbol %s which the library built from the same source does not export" % s))
        for s in sorted(enabled - refs):
            res["viol"].append((b, "never refers to %s (%s), which is enabled for this backend" % (s, allsyms.get(s))))
        for s in sorted((refs & set(allsyms)) - enabled):
            res["viol"].append((b, "refers to %s (%s) although it is disabled for this backend" % (s, allsyms.get(s))))
        if used and decl:
            for s in sorted((used - runtime) - decl):
                res["viol"].append((b, "uses %s without declaring it" % s))
        res["src"] = src
        return res

    jobs = [(i, b) for i in range(nprog) for b in toolrun.BACKENDS]
    results = pmap(one, jobs)
    nskip = 0
    for r in results:
        i, b = r["job"]
        stats["tool_runs"] += 1
        stats["symbols_exported"] += r["nsyms"]
        stats["symbol_uses_checked"] += r["nuses"]
        stats["abi_rename_sites"] += r["sites"]
        if r["inconc"]:
            nskip += 1
            chk.inconc("p%d/%s: %s" % (i, b, r["inconc"].replace("\n", " ")[:200]))
            continue
        combos.add((b, i % 16))
        for which, msg in r["viol"][:3]:
            chk.violation("p%d_%s" % (i, b), "program p%d backend %s: %s" % (i, b, msg),
                          {"backend": b, "message": msg, "all": [m for _, m in r["viol"]][:20], "lib_rs": open(r["src"]).read()[:20000] if r.get("src") else None})
    chk.evaluations = stats["symbol_uses_checked"] + stats["symbols_exported"]
    chk.distinct = combos
    chk.rule = ("per backend, seeded modules with abi_rename present/absent at module, type, impl and method level (all 16 combinations, patterns with and "
                "without {0}), plus backend-conditional disable on methods/impls and rename on types/methods; oracle 1 = nm of the staticlib compiled with the "
                "real macro vs a 15-line naming model (nearest enclosing pattern; types' patterns apply to destructors); oracle 2 = symbols read from each "
                "backend's output (C prototypes, C++ extern \"C\" blocks and capi:: calls, wasm.X in .mjs, Dart symbol:/_DiplomatFfiUse, JNA interface funs, "
                "nanobind's bundled C++ headers, demo_gen's js/) must equal the enabled part of the model. distinct_nontrivial = distinct (backend, abi_rename "
                "combination) pairs that reached the comparison.")
    chk.extra = dict(stats, programs=nprog, skipped=nskip)
    chk.sample({"module": '#[diplomat::abi_rename = "vf_{0}"]', "impl": '#[diplomat::abi_rename = "impl_{0}"]', "method": "Op1::m0", "expected_symbol": "impl_Op1_m0",
                "destructor": "vf_Op1_destroy"})
    chk.sample({"reader": "dart", "pattern": "@ffi.Native<...>(isLeaf: true, symbol: 'impl_Op5_m0') and @_DiplomatFfiUse('impl_Op5_m0')"})
    chk.assumptions = ["type/module-level disable is covered by C13; here only methods and impl blocks are disabled"]
    return chk.finish("more than half of the runs were skipped" if nskip * 2 > len(results) else None)
