"""C14 — output is a deterministic, order-independent, local function of the bridge."""
import copy
import os
import random

import common
import emit_rust
import spec
import toolrun
import tooltier
from common import Check, pmap

# files that aggregate over all types: compared for repeat runs and permutations, exempt from the locality rule
AGGREGATE = {
    "js": lambda p: os.path.basename(p) in ("index.mjs", "index.d.ts"),
    "dart": lambda p: os.path.basename(p) in ("lib.g.dart",),
    "kotlin": lambda p: os.path.basename(p) in ("Lib.kt",) or not p.endswith(".kt"),
    "nanobind": lambda p: p.endswith(("_ext.cpp", "pyproject.toml", "CMakeLists.txt")) or "sub_modules" in p,
    "demo_gen": lambda p: os.path.basename(p) in ("index.mjs", "index.d.ts") or not p.endswith((".mjs", ".d.ts")),
    "c": lambda p: False, "cpp": lambda p: False,
}

NON_BRIDGE_NOISE = '''
pub fn vf_free_function(x: u32) -> u32 { x + 1 }
pub struct VfOutside { pub a: u8 }
impl VfOutside { pub fn get(&self) -> u8 { self.a } }
mod vf_not_a_bridge {
    pub struct %(dup)s { pub zzz: u64 }
    impl %(dup)s { pub fn shadow(&self) -> u64 { self.zzz } }
    pub enum VfE { A, B }
}
pub trait VfTrait { fn f(&self); }
pub const VF_CONST: u32 = 7;
// modules that belong to *other* tools: only `#[diplomat::bridge]` marks a bridge (seed C14-i: any attribute path ending in `bridge`)
#[cxx::bridge]
mod vf_cxx_bridge {
    pub struct VfTelemetry { pub level: u8, pub code: u32 }
    pub enum VfMode { Fast, Slow }
}
#[other_tool::bridge(namespace = "x")]
pub mod vf_other_bridge {
    pub struct VfGauge { pub v: f32 }
    impl VfGauge { pub fn read(&self) -> f32 { self.v } }
}
#[bridge]
mod vf_bare_bridge {
    pub struct VfBare { pub b: bool }
}
'''


def emit(prog, d, name, cfg):
    p = os.path.join(d, name)
    os.makedirs(p, exist_ok=True)
    src, c = tooltier.write_program(prog, p, cfg)
    return src, c


def main(tier, seed):
    chk = Check("C14", tier, seed, "exploration")
    thorough = tier == "thorough"
    nprog = 80 if thorough else 12
    nperm = 6 if thorough else 3
    common.build_tool()
    jobs = [(i, b) for i in range(nprog) for b in toolrun.BACKENDS]
    stats = {"tool_runs": 0, "files_compared": 0, "per_type_files_checked_for_locality": 0}
    comparisons = set()

    def one(job):
        i, b = job
        out = {"job": job, "viol": [], "runs": 0, "files": 0, "local": 0, "skip": None, "cmp": []}
        prog = tooltier.backend_program(b, seed, i, avoid_known=True, size="large", salt="c14")
        # several modules so that module order can be permuted
        rng = random.Random("c14/%s/%s/%s" % (seed, i, b))
        if i % 3 != 0:
            tooltier.decorate(prog, rng)
        if b == "demo_gen":
            # demo_gen needs a constructor for every opaque it has to build: keep the decoration from disabling whole impl blocks
            for t_ in prog.types():
                if getattr(t_, "impl_attrs", None):
                    t_.impl_attrs = [a for a in t_.impl_attrs if "disable" not in a]
        items = prog.modules[0].items
        k = max(1, len(items) // 2)
        m2 = spec.Module("ffi2")
        m2.items = items[k:]
        prog.modules[0].items = items[:k]
        if m2.items:
            m2.uses = ["crate::ffi::%s" % t.name for t in prog.modules[0].items]
            prog.modules[0].uses = ["crate::ffi2::%s" % t.name for t in m2.items]
            prog.modules.append(m2)
        if i % 2 == 1:
            tooltier.add_traits(prog, rng, b)
            emit_rust.assign_abi_names(prog)
        if i % 3 == 0:
            tooltier.add_special_methods(prog, rng, b)
            emit_rust.assign_abi_names(prog)
        if i % 4 == 1:
            tooltier.add_docs(prog, rng)
        if b == "demo_gen" and i % 4 != 3:
            # i % 4 == 1: explicit generation with no tagged method at all in the base program; the inserted unrelated type (sorted
            # first) brings the only `generate` tag, which must not make anything else appear
            tooltier.add_demo_attrs(prog, rng, generate=(i % 4 != 1))
        if i % 2 == 0 and tooltier.profiles.support(b)["namespacing"]:
            # types spread over several namespaces with cyclic references between them: headers then forward-declare / include across namespaces
            tooltier.reference_graph_features(prog, rng, keyword_fields=False, renames=False, namespaces=True)
            emit_rust.assign_abi_names(prog)
        if len(prog.modules) > 1:
            # decorations may have added types (iterator opaques ...): each module imports everything the other one declares
            prog.modules[1].uses = ["crate::ffi::%s" % t.name for t in prog.modules[0].items]
            prog.modules[0].uses = ["crate::ffi2::%s" % t.name for t in prog.modules[1].items]
        cfg = tooltier.STD_CONFIG[b]
        if b == "demo_gen" and i % 4 in (1, 2):
            cfg = '[demo_gen]\nexplicit_generation = true\n'        # only #[diplomat::demo(generate)] methods are rendered
        d = toolrun.fresh_dir(toolrun.workdir("c14", "p%d_%s" % (i, b)))

        def gen(p, name):
            src, c = emit(p, d, name, cfg)
            rc, o, e = toolrun.run_tool(b, src, os.path.join(d, name, "out"), config_file=c)
            out["runs"] += 1
            kind, det = toolrun.classify_tool(rc, e)
            return kind, (tooltier.snapshot(os.path.join(d, name, "out")) if kind == "ok" else None), src, e

        kind, base, src0, e = gen(prog, "base")
        if kind != "ok":
            out["skip"] = "%s: %s" % (kind, e[-200:].replace("\n", " "))
            return out

        def compare(label, other, only=None, witness_src=None):
            out["cmp"].append(label.split(":")[0])
            keys = set(base) | set(other)
            for f in sorted(keys):
                if only is not None and not only(f):
                    continue
                out["files"] += 1
                if base.get(f) != other.get(f):
                    out["viol"].append((label, f, "missing" if f not in other else ("extra" if f not in base else "differs"), witness_src))
                    return

        # (1) repeat runs in fresh processes (each has its own RandomState keys)
        for r in range(3 if thorough else 2):
            kind, snap, s, e = gen(prog, "rep%d" % r)
            if kind == "ok":
                compare("repeat-run", snap, witness_src=s)
        # (2) permutations of module order and of item order (impls travel with their type)
        for r in range(nperm):
            p2 = copy.deepcopy(prog)
            rng.shuffle(p2.modules)
            for m in p2.modules:
                rng.shuffle(m.items)
            kind, snap, s, e = gen(p2, "perm%d" % r)
            if kind == "ok":
                compare("permutation", snap, witness_src=s)
            else:
                out["viol"].append(("permutation changes acceptance: %s" % kind, "-", e[-300:], s))
        # (3) an unrelated type nothing refers to: every other type's own files must not change
        p3 = copy.deepcopy(prog)
        # the inserted types vary in kind, in where they sort (first / last by name and by module) and in the features their
        # methods use (callbacks, write, results where the backend has them): per-type state of the generator must not leak
        sup = tooltier.profiles.support(b)
        zz = "Zz" if (rng.random() < 0.7 and not (b == "demo_gen" and i % 4 == 1)) else "Aa"
        extra = spec.Opaque(zz + "UnrelatedOp")
        extra.methods.append(spec.Method("solo", None, [("x", ("prim", "u8"))], ("obox", extra.name, False)))
        if sup["callbacks"]:
            extra.methods.append(spec.Method("with_cb", ("ref", None), [("f", ("cb", [("prim", "i32")], ("prim", "i32"), False))], ("prim", "i32")))
        extra.methods.append(spec.Method("wr", ("ref", None), [("w", ("write",))], ("unit",)))
        if b == "demo_gen":
            # an explicitly tagged terminus on the inserted type: whether another type's methods are rendered must not depend on it
            extra.methods[0].attrs.append("#[diplomat::demo(default_constructor)]")
            extra.methods[-1].attrs.append("#[diplomat::demo(generate)]")
        p3.modules[rng.randrange(len(p3.modules))].items.insert(rng.randrange(3), extra)
        st = spec.Struct("AaUnrelatedSt", [("q", ("prim", "i16")), ("r", ("prim", "f32"))])
        p3.modules[0].items.insert(0, st)
        en = spec.Enum("ZzzUnrelatedEn", [("North", None), ("South", None)])
        if sup["callbacks"]:
            en.methods.append(spec.Method("remap", ("val",), [("f", ("cb", [("prim", "i32")], ("prim", "i32"), False))], ("prim", "i32")))
        else:
            en.methods.append(spec.Method("ident", ("val",), [], ("prim", "i32")))
        mlast = spec.Module("zz_unrelated")
        mlast.items = [en]
        if rng.random() < 0.5:
            p3.modules.append(mlast)
        else:
            p3.modules[-1].items.append(en)
        for t_ in (extra, st, en):
            for m_ in t_.methods:
                m_.owner = t_
        if sup["namespacing"] and i % 2 == 0:
            # an unrelated module that re-uses the *identifier* of an existing opaque, told apart by namespace and abi_rename
            # (types are looked up by path, not by bare name: the original's files must not notice)
            cands = [t_ for t_ in prog.types() if t_.kind == "opaque" and not t_.lifetimes]
            if cands:
                orig = rng.choice(cands)
                dup = spec.Opaque(orig.name)
                dup.methods.append(spec.Method("make", None, [("seed", ("prim", "u32"))], ("obox", orig.name, False)))
                dup.methods.append(spec.Method("twin", ("ref", None), [("other", ("oref", orig.name, False, None, False))], ("prim", "u8")))
                for m_ in dup.methods:
                    m_.owner = dup
                mdup = spec.Module("zzz_dup")
                mdup.attrs = ['#[diplomat::attr(auto, namespace = "vfdup")]', '#[diplomat::abi_rename = "vfdup_{0}"]']
                mdup.items = [dup]
                p3.modules.append(mdup)
        if sup.get("traits"):
            # an unrelated trait nothing consumes, sorted first, half of the time disabled for this backend (seed C14-g: disabled traits
            # dropped from the context after their positions had been handed out as ids): `impl Trait` parameters elsewhere must not notice
            tattr = rng.choice(["", "#[diplomat::attr(%s, disable)]\n    " % b, "#[diplomat::attr(*, disable)]\n    ", "#[diplomat::attr(any(c, kotlin), disable)]\n    "])
            p3.modules[0].extra_src += "    %spub trait AaUnrelatedTr {\n        fn ping(&self, x: u8) -> u8;\n    }\n" % tattr
        emit_rust.assign_abi_names(p3)
        kind, snap, s, e = gen(p3, "insert")
        if kind == "ok":
            agg = AGGREGATE[b]
            n0 = out["files"]
            # files of other types must neither change nor appear / disappear (only the inserted types' own files may be new)
            compare("unrelated-type insertion", snap, only=lambda f: not agg(f) and "Unrelated" not in f and "vfdup" not in f.lower(), witness_src=s)
            out["local"] += out["files"] - n0
        else:
            # nothing refers to the inserted types: whether the module is accepted cannot depend on them
            out["viol"].append(("unrelated-type insertion changes acceptance: %s" % kind, "-", e[-300:], s))
        # (1b) repeat runs when one language-scoped shared setting is given in both of its spellings (kebab-case in the file, as the book
        # writes it, and on the command line): whichever of them the tool honours, it must be the same in every process (seed C14-j: both
        # spellings stored side by side in a hash map and applied in iteration order)
        if b in ("kotlin", "nanobind") and i % 2 == 0:
            srcm, cm = emit(prog, d, "mixed", cfg + ("" if "[%s]" % b in cfg else "\n[%s]\n" % b) + "lib-name = \"filelib\"\nunsafe-references-in-callbacks = true\n")
            first = None
            for r_ in range(6 if thorough else 5):
                rc, o, e = toolrun.run_tool(b, srcm, os.path.join(d, "mixed", "out%d" % r_), config_file=cm,
                                            configs=["%s.lib-name=clilib" % b, "%s.unsafe-references-in-callbacks=false" % b, "%s.lib_name=snakelib" % b][: 2 + (i // 2) % 2])
                out["runs"] += 1
                k_, det = toolrun.classify_tool(rc, e)
                snap = (k_, tooltier.snapshot(os.path.join(d, "mixed", "out%d" % r_)) if k_ == "ok" else None)
                if first is None:
                    first = snap
                    if k_ != "ok":
                        break          # nothing to compare (the program itself is not accepted under this configuration)
                elif snap != first:
                    out["viol"].append(("repeat-run with one scoped setting in both spellings: outcome differs between processes (%s / %s, %d vs %d files)" % (
                        first[0], snap[0], len(first[1] or {}), len(snap[1] or {})), "-", "differs", srcm))
                    break
        # (4) code outside bridge modules (incl. a same-named type in a non-bridge module) has no influence
        p4 = copy.deepcopy(prog)
        dup = [t.name for t in prog.types()][0]
        p4.epilogue = NON_BRIDGE_NOISE % {"dup": dup}
        p4.prelude = "pub struct VfBefore(pub u8);\nimpl VfBefore { pub fn z(&self) {} }\n"
        kind, snap, s, e = gen(p4, "noise")
        if kind == "ok":
            compare("non-bridge items", snap, witness_src=s)
        else:
            out["viol"].append(("non-bridge items change acceptance: %s" % kind, "-", e[-300:], s))
        return out

    results = pmap(one, jobs)
    nskip = 0
    for r in results:
        i, b = r["job"]
        stats["tool_runs"] += r["runs"]
        stats["files_compared"] += r["files"]
        stats["per_type_files_checked_for_locality"] += r["local"]
        if r["skip"]:
            nskip += 1
            chk.inconc("p%d/%s not generated (%s)" % (i, b, r["skip"][:160]))
            continue
        for c in r["cmp"]:
            comparisons.add("%s|p%d|%s" % (b, i, c))
        for label, f, how, src in r["viol"]:
            chk.violation("p%d_%s_%s" % (i, b, label.split(" ")[0]), "%s: backend %s file %s %s (program p%d)" % (label, b, f, how, i),
                          {"backend": b, "file": f, "how": how, "variant_lib_rs": open(src).read()[:20000] if src and os.path.exists(src) else None,
                           "base_dir": toolrun.workdir("c14", "p%d_%s" % (i, b))})
    chk.evaluations = stats["tool_runs"]
    chk.distinct = comparisons
    chk.rule = ("programs with 10-20 types split over two bridge modules (two thirds of them decorated with backend-conditional rename/disable attributes and abi_rename patterns at module, type, impl and method level; half of them with traits and `impl Trait` parameters where the backend supports traits, the other half spread over nested namespaces with cyclic references where the backend supports namespacing), per backend: base run vs (1) repeat runs in fresh processes, (2) random "
                "permutations of module order and item order, (3) insertion of three unrelated types (opaque with callback / write methods, struct, enum with a callback method; sorted first or last, in an existing or a new last module; where the backend has traits also an unconsumed trait sorted first, in three of four cases disabled for the backend) (per-type files of all other types must be "
                "byte-identical; aggregate index files exempt), (4) extra non-bridge items incl. a same-named struct in a non-bridge module. "
                "distinct_nontrivial = distinct (backend, program, comparison kind) triples actually compared.")
    chk.extra = dict(stats, programs=nprog, backends=toolrun.BACKENDS, skipped=nskip,
                     aggregate_files_exempt_from_locality={"js/demo_gen": ["index.mjs", "index.d.ts"], "dart": ["lib.g.dart"], "kotlin": ["Lib.kt", "non-.kt files"],
                                                           "nanobind": ["<lib>_ext.cpp", "sub_modules/*", "pyproject.toml", "CMakeLists.txt"]})
    chk.sample({"program": "p0", "backend": "cpp", "comparison": "permutation", "what": "modules ffi/ffi2 swapped and items shuffled; all files byte-identical"})
    chk.sample({"program": "p0", "backend": "js", "comparison": "unrelated-type insertion", "what": "opaque ZzUnrelated + struct AaUnrelatedSt added; every other type's .mjs/.d.ts unchanged"})
    chk.assumptions = ["hash seeds differ between processes (std RandomState); no other nondeterminism source exists in a single-threaded generator"]
    return chk.finish("more than half of the runs were skipped" if nskip * 2 > len(results) else None)
