"""C02 — C++ bindings preserve values and outcomes in both directions.
Differential execution through the generated class API (std::optional, string_view, span, structs, enum wrappers,
references, std::function; unique_ptr / optional / diplomat::result / std::string returns), compiled as C++17
(bundled span) and C++20 (std::span) under ASan+UBSan; invalid UTF-8 in a direct &str argument must be rejected on
the C++ side without reaching Rust. Also builds and runs the repository's own feature_tests C++ drivers."""
import os
import shutil

import api
import common
import toolrun
from common import Check, pmap, run

REQUIRED = ["param:prim:u8", "param:prim:f64", "param:prim:DiplomatChar", "param:enum", "param:struct", "param:&opaque", "param:&mut opaque",
            "param:Option<&opaque", "param:&slice", "param:&mut slice", "param:Box<[T]>", "param:&str:utf8", "param:&str:ustr", "param:&str:u16",
            "param:Box<str>:utf8", "param:Option<prim>", "param:DiplomatOption<prim>", "param:Option<struct>", "param:Option<enum>", "param:Option<slice>",
            "param:callback", "param:callback:static", "param:write", "ret:unit", "ret:enum", "ret:struct", "ret:outstruct", "ret:Box<opaque>", "ret:Option<Box<opaque>", "ret:&opaque",
            "ret:Option<prim>", "ret:result", "ret:ok:unit", "ret:err:unit", "ret:ordering", "ret:&str:utf8:static", "ret:&slice", "arm:ok", "arm:err",
            "arm:some", "arm:none", "destroy", "self:struct:val", "self:enum:val", "self:opaque:mut", "field:DiplomatOption<prim>", "field:struct",
            "field:Option<&opaque", "field:&slice"]


def repo_drivers(chk, stats):
    """feature_tests/cpp/tests/*.cpp against freshly generated headers and a freshly built staticlib."""
    ft = os.path.join(common.REPO, "feature_tests")
    d = toolrun.fresh_dir(toolrun.workdir("c02", "feature_tests"))
    rc, o, e = toolrun.run_tool("cpp", os.path.join(ft, "src", "lib.rs"), os.path.join(d, "include"), config_file=os.path.join(ft, "config.toml"), cwd=ft)
    if rc != 0:
        chk.violation("feature_tests_gen", "diplomat-tool cpp fails on the repository's feature_tests: " + e[-300:], {"stderr": e[-2000:]})
        return
    tgt = common.repo_target("stable")
    rc, o, e = run(["cargo", "build", "--offline", "-p", "diplomat-feature-tests", "--manifest-path", os.path.join(common.REPO, "Cargo.toml"), "--target-dir", tgt], timeout=1800)
    lib = os.path.join(tgt, "debug", "libdiplomat_feature_tests.a")
    if rc != 0 or not os.path.exists(lib):
        chk.inconc("feature_tests staticlib does not build: " + e[-300:])
        return
    # standards as in feature_tests/cpp/Makefile (structs.cpp: C++20, the others: C++17; option.cpp itself is not C++20-clean)
    shutil.copytree(os.path.join(ft, "cpp", "tests"), os.path.join(d, "tests"))
    tests = sorted(f for f in os.listdir(os.path.join(d, "tests")) if f.endswith(".cpp"))

    def one(job):
        t, std = job
        exe = os.path.join(d, "tests", "%s_%s.out" % (t[:-4], std.replace("+", "p")))
        rc, o, e = run(["g++", "-std=" + std] + api.CXXFLAGS + [os.path.join(d, "tests", t), lib] + api.LINK_LIBS + ["-o", exe], timeout=900)
        if rc != 0:
            return t, std, "compile", e[-1500:]
        rc, o, e = run([exe], env=api.ASAN_ENV, timeout=120)
        os.remove(exe)
        if rc != 0 or api.sanitizer_blocks(e):
            return t, std, "run", (o + e)[-1500:]
        return t, std, "ok", ""
    for t, std, st, msg in pmap(one, [(t, std) for t in tests for std in (("c++17", "c++20") if t == "structs.cpp" else ("c++17",))]):
        stats["repo_driver_runs"] += 1
        if st != "ok":
            chk.violation("feature_tests_%s_%s" % (t, std), "repository driver feature_tests/cpp/tests/%s (%s) fails at %s: %s" % (t, std, st, msg[-300:]), {"output": msg})


def strs_probe(chk, seed, stats):
    """F16: slices of strings through C++ (std::string_view layout vs DiplomatStringView)."""
    for i in range(3):
        r = api.run_cpp_program(seed + 9000, i, "c02probe", profile=dict(strs=True, max_params=3), ncalls=30, stds=("c++17",))
        stats["strs_probe_programs"] += 1
        if r["status"] == "violation":
            uses = any(pt[0] == "strs" or (pt[0] == "opt" and pt[1][0] == "strs") for t, m in r["prog"].methods() for _, pt in m.params)
            d = r.get("diff")
            at_call = (d[1] if d else "") + " ".join(r.get("context") or [])
            chk.violation("strs_probe_%d" % i, "slice-of-strings probe p%d: %s" % (i, (str(d) + str(r.get("reports")))[:300]), api.witness(r),
                          key={"signature": "slice of strings through C++ on a standard library whose string_view is {len, ptr}", "uses_strs": uses})


def main(tier, seed):
    chk = Check("C02", tier, seed, "exploration")
    thorough = tier == "thorough"
    nprog = 700 if thorough else 64
    toolrun.anchor()
    common.build_tool()
    stats = {"repo_driver_runs": 0, "strs_probe_programs": 0, "rejected_utf8_calls": 0, "events_observed": 0}

    def one(i):
        # every third program also has holder opaques keeping a std::function beyond the call that received it
        return api.run_cpp_program(seed, i, "c02", ncalls=40, profile=(dict(held_callbacks=True, cb_orefs=True) if i % 3 == 1 else dict(utf8_bias=True, callbacks=False, owned_slices=False) if i % 6 == 2 else dict(opt_strs_bias=True) if i % 6 == 5 else None))
    results = pmap(one, range(nprog))
    # feature quotas are met by construction: while a required production has not been exercised, run further programs (new indices)
    for round_ in range(4):
        if not api.quota_gaps(api.productions(results), REQUIRED):
            break
        results += pmap(one, range(len(results), len(results) + max(8, nprog // 4)))
    sigs = set()
    calls = skipped = 0
    for r in results:
        if r["status"] == "violation":
            d = r.get("diff")
            summ = ("program p%d stage=%s: " % (r["idx"], r["stage"])) + (
                "event %d expected `%s` observed `%s`" % d if d else (str(r.get("reports") or r.get("detail"))[:400]))
            chk.violation("p%d" % r["idx"], summ, api.witness(r))
        elif r["status"] == "skip":
            skipped += 1
            chk.inconc("p%d skipped at %s: %s" % (r["idx"], r["stage"], (r.get("detail") or "")[:160].replace("\n", " ")))
        elif r["status"] == "inconclusive":
            chk.inconc("p%d: %s" % (r["idx"], r.get("detail")))
        if r["status"] in ("ok", "violation"):
            calls += r["calls"]
            stats["rejected_utf8_calls"] += r["rejected_calls"]
            stats["events_observed"] += r.get("observed_events", 0)
            sigs.update(s for s in r["sigs"] if not api.spec.is_trivial_sig(s.split(":", 1)[1]))
    repo_drivers(chk, stats)
    strs_probe(chk, seed, stats)
    prods = api.productions(results)
    gaps = api.quota_gaps(prods, REQUIRED)
    import c02_special
    sp = c02_special.special_leg(chk, tier, seed)
    stats.update(sp)
    chk.evaluations = calls + sp["special_operator_checks"]
    chk.distinct = sigs
    chk.rule = ("seeded grammar-generated bridge modules compiled with the real proc macro; C++ driver against freshly generated .hpp files, built twice "
                "(g++ -std=c++17 and -std=c++20, ASan+UBSan), both runs must print the event log predicted from the script; direct &str arguments are "
                "given invalid UTF-8 in ~30% of eligible calls and must come back as the Utf8Error arm with no CALL record; plus the repository's five "
                "feature_tests C++ drivers against regenerated headers. distinct_nontrivial = distinct method shape signatures with a non-primitive production.")
    chk.extra = dict(stats, programs=len(results), programs_skipped=skipped, production_counts=dict(sorted(prods.items())), quota_gaps=gaps)
    ok = [r for r in results if r["status"] == "ok"]
    if ok:
        r = ok[0]
        for s in [s for s in r["script"].steps if s["kind"] == "call" and s["m"].name != "make"][:2]:
            chk.sample({"program": "p%d" % r["idx"], "method": api.spec.method_sig(s["owner"], s["m"]), "events": [l for _, l in s["expect"]]})
        rej = [s for r2 in ok for s in r2["script"].steps if s.get("rejected")][:1]
        for s in rej:
            chk.sample({"rejected_call": s["m"].abi_name, "bad_argument": {k: (v["data"].hex() if isinstance(v["data"], (bytes, bytearray)) else list(v["data"])) for k, v in s["args"].items() if isinstance(v, dict) and "data" in v}, "events": [l for _, l in s["expect"]]})
    chk.assumptions = ["x86-64, g++ 12 / libstdc++", "slices of strings excluded from the main workload (known finding F16), probed separately"]
    whole = None
    if skipped * 2 > len(results):
        whole = "more than half of the programs were skipped"
    elif gaps:
        # still not reached after the top-up rounds: stated in the evidence (quota_gaps), not a verdict
        print("NOTE property=%s productions not exercised in this run: %s" % (chk.prop, ",".join(gaps)), flush=True)
    return chk.finish(whole)
