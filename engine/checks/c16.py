"""C16 — runtime slice/string views round-trip; diplomat_is_str is exact."""
import rt
from common import Check, NCPU


def main(tier, seed):
    chk = Check("C16", tier, seed, "exploration")
    thorough = tier == "thorough"
    jobs = []
    maxlen = 40 if thorough else 17
    # round trips: native debug (debug_asserts on), release, ASan, valgrind, Miri
    jobs += [("debug", ["c16-roundtrip", maxlen]), ("release", ["c16-roundtrip", maxlen]),
             ("asan", ["c16-roundtrip", maxlen]), ("valgrind", ["c16-roundtrip", maxlen]),
             ("miri", ["c16-roundtrip", 6 if thorough else 4])]
    # UTF-8: exhaustive <= 3 bytes, sharded natively (release for speed, asan on a shard subset)
    for s in range(NCPU):
        jobs.append(("release", ["c16-utf8-exh", 3, s, NCPU]))
    jobs.append(("asan", ["c16-utf8-exh", 2, 0, 1]))
    jobs.append(("miri", ["c16-utf8-exh", 1, 0, 1]))
    # all 4-byte strings with a 4-byte lead (F0..F7): 2^27 strings
    if thorough:
        for s in range(NCPU):
            jobs.append(("release", ["c16-utf8-lead4", s, NCPU, 1]))
    else:
        for s in range(NCPU):
            jobs.append(("release", ["c16-utf8-lead4", s, NCPU, 1]))
    jobs.append(("miri", ["c16-utf8-lead4", 0, 64, 64]))
    nrand = 2_000_000 if thorough else 200_000
    for s in range(4):
        jobs.append(("release", ["c16-utf8-rand", seed * 100 + s, nrand // 4]))
    jobs.append(("asan", ["c16-utf8-rand", seed * 100 + 50, nrand // 10]))
    jobs.append(("valgrind", ["c16-utf8-rand", seed * 100 + 60, 20000 if thorough else 4000]))
    jobs.append(("miri", ["c16-utf8-rand", seed * 100 + 70, 400 if thorough else 120]))
    # diplomat_alloc / diplomat_free pairs
    jobs += [("asan", ["c16-alloc", 128]), ("valgrind", ["c16-alloc", 128]), ("miri", ["c16-alloc", 24])]

    results = rt.run_all(jobs)
    total = rt.judge(chk, results, "C16")
    exh3 = sum(r.stats.get("utf8_strings", 0) for r in results if r.args[-4:-3] == ["c16-utf8-exh"] or "c16-utf8-exh" in r.args and r.mode == "release")
    chk.evaluations = total.get("utf8_strings", 0) + total.get("roundtrip_checks", 0) + total.get("alloc_free_pairs", 0)
    # distinct non-trivial: valid multi-byte-capable strings + roundtrip checks with len>0 are many; count
    # conservatively the valid UTF-8 strings seen (each distinct in the exhaustive sweeps) plus element types
    chk.distinct = total.get("utf8_valid", 0) // 2 + total.get("elem_types", 0)
    chk.rule = ("UTF-8: every byte string of length 0..3 (16,843,009) and every 4-byte string with lead byte F0..F7 (2^27) "
                "compared with an independent RFC 3629 automaton, plus seeded near-valid random strings (and exact-size heap "
                "sub-slices under ASan/valgrind/Miri); round trips: 13 element types x lengths 0..%d x {borrowed, mutable, owned, "
                "NULL+0} x {convert, deref, deref_mut, back}. distinct_nontrivial = (valid strings seen, halved because the "
                "ASan/Miri legs repeat part of the sweep) + element types." % maxlen)
    chk.exhaustive = True
    chk.extra = {"stats": total, "modes": sorted({r.mode for r in results}),
                 "processes": len(results),
                 "utf8_exhaustive_len_le3_strings": sum(r.stats.get("utf8_strings", 0) for r in results if "c16-utf8-exh" in r.args and r.mode == "release"),
                 "utf8_lead4_strings": sum(r.stats.get("utf8_strings", 0) for r in results if "c16-utf8-lead4" in r.args and r.mode == "release"),
                 "sanitizer_reports": sum(len(r.sanitizer_reports()) for r in results)}
    chk.sample({"call": "diplomat_is_str(ed a0 80)", "rfc3629": False, "meaning": "UTF-16 surrogate encoded in 3 bytes"})
    chk.sample({"call": "DiplomatOwnedSlice<f64>{NULL,0} -> Box<[f64]>", "expect": "empty box, no free of NULL"})
    chk.sample({"argv": [str(a) for a in results[0].args], "stats": results[0].stats})
    chk.assumptions = ["RFC 3629 automaton in rs/rtmon/src/utf8.rs is the reference", "x86-64 only"]
    need = 16843009
    if chk.extra["utf8_exhaustive_len_le3_strings"] != need and not chk.violations:
        return chk.finish("exhaustive UTF-8 sweep incomplete: %d of %d" % (chk.extra["utf8_exhaustive_len_le3_strings"], need))
    return chk.finish()
