"""Call scripts for runnable programs: concrete argument values, per-method return
tables, scripted callbacks / writes, object lifetimes — and the *expected* event log,
computed from the script alone (never from generated headers or macro output)."""
from spec import INTS, FLOATS, prim_bits

CHUNKS = ["", "a", "é", "€", "😀", "0123456789abcdefg", "hello world", "éé", "x\u0000y"]


class Obj:
    def __init__(self, ty, h):
        self.ty, self.h = ty, h
        self.id = None
        self.alive = False
        self.owned = True


def cbarg_expr(prog, a, av):
    """Rust expression for an argument Rust passes to a callback / trait method (slices and strings are statics on the Rust side)."""
    from emit_rust import value_expr
    if a[0] == "slice":
        return value_expr(prog, a, ("static", av["items"]))
    if a[0] == "str":
        return value_expr(prog, a, ("static", av["data"]))
    return value_expr(prog, a, av)


class JsBytes(bytes):
    """the UTF-8 bytes Rust is expected to see for a JS string given as UTF-16 code units (attribute js16)"""


class Script:
    def __init__(self, prog, rng, lang="c"):
        self.prog = prog
        self.lang = lang
        self.r = rng
        self.objs = []
        self.steps = []
        self.next_id = 1
        self.counts = {}
        self.expected = []
        self.cb_counter = 0

    # ------------------------------------------------------------ values
    def prim_value(self, p):
        r = self.r
        if p == "bool":
            return r.randint(0, 1)
        if p == "char":
            c = r.choice([0, 0x41, 0x7f, 0x80, 0x7ff, 0x800, 0xd7ff, 0xe000, 0xffff, 0x10000, 0x10ffff, r.randint(0, 0xd7ff)])
            return c
        if p == "DiplomatChar":
            return r.choice([0, 0x41, 0xd800, 0xdfff, 0x110000, 0xffffffff, 0x10ffff, r.getrandbits(32)])
        w = prim_bits(p)
        mask = (1 << w) - 1
        if p in FLOATS:
            if w == 32:
                specials = [0, 0x80000000, 0x3f800000, 0x7f800000, 0xff800000, 0x7fc00000, 0x7fc00001, 0x7f800001, 0xffc12345,
                            0x00000001, 0x007fffff, 0x7f7fffff]
            else:
                specials = [0, 1 << 63, 0x3ff0000000000000, 0x7ff0000000000000, 0xfff0000000000000, 0x7ff8000000000000,
                            0x7ff8000000000001, 0x7ff0000000000001, 0xfff8123456789abc, 1, 0x000fffffffffffff, 0x7fefffffffffffff]
            v = r.choice(specials) if r.random() < 0.6 else r.getrandbits(w)
            if self.lang == "js":
                # a JS number cannot carry a NaN payload or sign reliably through the engine: NaNs are left to the C/C++ legs
                exp_all_ones = ((v >> 23) & 0xff) == 0xff if w == 32 else ((v >> 52) & 0x7ff) == 0x7ff
                mant = v & ((1 << (23 if w == 32 else 52)) - 1)
                if exp_all_ones and mant:
                    v = 0x3fc00000 if w == 32 else 0x3ff8000000000000
            return v
        cls = r.random()
        if cls < 0.12:
            return 0
        if cls < 0.22:
            return 1
        if cls < 0.34:
            return mask                      # -1 / MAX
        if cls < 0.46:
            return 1 << (w - 1)              # MIN (signed) / high bit
        if cls < 0.56:
            return (1 << (w - 1)) - 1        # MAX (signed)
        if cls < 0.62:
            return 0x5a5a5a5a5a5a5a5a & mask
        return r.getrandbits(w)

    def bytes_value(self, enc):
        r = self.r
        if enc == "u16":
            n = r.choice([0, 0, 1, 2, 5])
            return [r.choice([0, 0x41, 0xd800, 0xdc00, 0xffff, 0x20ac, 0xfeff, r.getrandbits(16)]) for _ in range(n)]          # lone surrogates and a (leading) U+FEFF are ordinary code units of an unvalidated UTF-16 string
        if enc == "utf8":
            return r.choice(["", "", "a", "héllo", "€uro", "😀", "a\u0000b", "ascii only text", "߿￿\U0010ffff"]).encode("utf-8")
        if self.lang == "js" and r.random() < 0.15:
            # an ill-formed JS string (unpaired surrogates): the binding encodes it with TextEncoder semantics, every unpaired surrogate
            # becomes U+FFFD and the byte length it allocates has to agree with what the encoder writes (seed C16-j)
            units = r.choice([[0x61, 0xD83D, 0xE9], [0xD800, 0xD800], [0xD83D, 0x20AC, 0x62], [0xDC00, 0x41], [0x41, 0xD83D], [0xD83D, 0xDE00, 0xD83D, 0x416]])
            out, i = [], 0
            while i < len(units):
                u = units[i]
                if 0xD800 <= u < 0xDC00 and i + 1 < len(units) and 0xDC00 <= units[i + 1] < 0xE000:
                    out.append(chr(0x10000 + ((u - 0xD800) << 10) + (units[i + 1] - 0xDC00)))
                    i += 2
                    continue
                out.append("\ufffd" if 0xD800 <= u < 0xE000 else chr(u))
                i += 1
            b = JsBytes("".join(out).encode("utf-8"))
            b.js16 = units
            return b
        if self.lang == "js":
            # otherwise well-formed: a JS string is the only way to pass a DiplomatStr from JS
            return r.choice(["", "", "a", "h\u00e9", "\u20acuro", "\U0001f600", "plain", "x\u0000y"]).encode("utf-8")
        # unvalidated: may be invalid UTF-8
        return r.choice([b"", b"", b"a", b"\xff\xfe", b"h\xc3\xa9", b"\xed\xa0\x80", b"\x00", b"plain", bytes(r.getrandbits(8) for _ in range(r.randint(1, 9)))])

    def value(self, t, pos="param", lt_objs=None):
        """Random value of type t for an argument (pos=param) or a struct field."""
        r = self.r
        k = t[0]
        if k == "prim":
            return self.prim_value(t[1])
        if k == "enum":
            return r.randrange(len(self.prog.find(t[1]).variants))
        if k == "struct":
            s = self.prog.find(t[1])
            return {fn: self.value(ft, "field") for fn, ft in s.fields}
        if k == "obox" and pos == "cbarg":
            # Rust creates an object and hands it over for good: the foreign callback owns it and has to destroy it
            return {"tmp": r.getrandbits(16)}
        if k == "oref" and pos == "cbarg":
            # Rust creates a temporary object, lends it to the callback and drops it afterwards (ids are assigned when the call is scripted)
            return {"tmp": r.getrandbits(16)}
        if k == "oref":
            if t[4] and r.random() < 0.4:
                return None
            cands = [o for o in self.objs if o.ty == t[1] and o.alive]
            return r.choice(cands).h
        if k == "opt":
            if r.random() < 0.4:
                return None
            return ("some", self.value(t[1], pos))
        if k in ("slice", "oslice"):
            n = r.choice([0, 0, 1, 2, 3, 7])
            return {"items": [self.prim_value(t[1] if t[1] != "DiplomatByte" else "u8") for _ in range(n)], "null": n == 0 and r.random() < 0.5}
        if k in ("str", "ostr"):
            b = self.bytes_value(t[1])
            return {"data": b, "null": len(b) == 0 and r.random() < 0.5}
        if k == "strs":
            n = r.choice([0, 1, 2, 3])
            return {"strs": [self.bytes_value(t[1]) for _ in range(n)], "null": n == 0 and r.random() < 0.5}
        if k == "cb" and len(t) > 4:
            # kept by the holder: invoked by later `invoke` calls (appended to "inv" as the script grows), released with the holder
            self.cb_counter += 1
            return {"cb": self.cb_counter, "inv": [], "destructor": True, "null_data": r.random() < 0.3, "held": True}
        if k == "cb":
            self.cb_counter += 1
            ninv = r.choice([0, 1, 1, 2, 3])
            inv = []
            for _ in range(ninv):
                args = [self.value(a, "cbarg") for a in t[1]]
                ret = None if t[2] == ("unit",) else self.value(t[2], "cbret")
                inv.append((args, ret))
            return {"cb": self.cb_counter, "inv": inv, "destructor": r.random() < 0.8 or self.lang == "cpp", "null_data": r.random() < 0.3}
        if k == "tr":
            self.cb_counter += 1
            inv = []
            for _ in range(r.choice([0, 1, 2, 3, 5])):
                mi = r.randrange(len(t[2]))
                _, _, margs, mret = t[2][mi]
                inv.append((mi, [self.value(a, "cbarg") for a in margs], None if mret == ("unit",) else self.value(mret, "cbret")))
            return {"cb": self.cb_counter, "inv": inv, "destructor": r.random() < 0.8, "null_data": r.random() < 0.3}
        if k == "write":
            nch = r.choice([0, 1, 2, 3, 5, 8])
            chunks = [r.choice(CHUNKS) for _ in range(nch)]
            if chunks and r.random() < 0.06:
                # one chunk far longer than everything written before it (growth requests much larger than the current capacity)
                chunks[r.randrange(len(chunks))] = "".join("0123456789abcdefghijklmnopqrstuvwxyz"[i % 36] for i in range(r.choice([4097, 4200, 5000, 9000])))
            mode = r.choice(["buffer", "fixed"]) if self.lang == "c" else "buffer"
            size = r.choice([1, 2, 3, 4, 5, 8, 16, 17, 18, 32, 64])
            if chunks and r.random() < 0.5:
                # the boundary of a caller-supplied buffer: the output (or a prefix of whole chunks) fills it exactly, leaves exactly the
                # terminator's byte, or is one byte too long
                k = r.randint(1, len(chunks))
                size = max(1, sum(len(c.encode("utf-8")) for c in chunks[:k]) + r.choice([0, 0, 1, 1, -1]))
            return {"chunks": chunks, "mode": mode, "cap": r.choice([0, 1, 2, 4, 16, 64]), "size": size}
        raise ValueError(t)

    def ret_value(self, t, m, args):
        """Value for the return table of method m (may reference parameters)."""
        r = self.r
        k = t[0]
        if k in ("prim", "enum"):
            return self.value(t)
        if k == "struct":
            s = self.prog.find(t[1])
            return {fn: self.ret_value(ft, m, args) for fn, ft in s.fields}
        if k == "obox":
            if t[2] and r.random() < 0.35:
                return None
            return {"seed": r.getrandbits(16), "new": True}
        if k == "oref":
            if t[4] and r.random() < 0.35:
                return None
            if m.self_kind and m.self_kind[0] in ("ref", "mut") and m.self_kind[1] == t[3] and m.owner.name == t[1] and not any(pn == "bo" for pn, _ in m.params):
                return ("self",)
            return ("param", "bo")
        if k == "opt":
            if r.random() < 0.4:
                return None
            return ("some", self.ret_value(t[1], m, args))
        if k == "result":
            arm = "ok" if r.random() < 0.5 else "err"
            pt = t[1] if arm == "ok" else t[2]
            return (arm, self.ret_value(pt, m, args))
        if k == "unit":
            return ()
        if k == "ordering":
            return r.choice([-1, 0, 1])
        if k == "slice":
            if t[3] == "static":
                n = r.choice([0, 1, 3])
                return ("static", [self.prim_value(t[1]) for _ in range(n)])
            return ("param", "bs")
        if k == "str":
            if t[2] == "static":
                return ("static", self.bytes_value(t[1] if t[1] != "ustr" else "utf8"))
            return ("param", "bs")
        raise ValueError(t)

    # ------------------------------------------------------------ canonical forms
    def canon(self, t, v):
        k = t[0]
        if k == "prim":
            p = t[1]
            if p == "bool":
                return "1" if v else "0"
            w = prim_bits(p)
            return "%0*x" % (w // 4, v & ((1 << w) - 1))
        if k == "enum":
            val = self.prog.find(t[1]).values()[v]
            return "%08x" % (val & 0xFFFFFFFF)
        if k == "struct":
            s = self.prog.find(t[1])
            return "{" + ",".join("%s:%s" % (fn, self.canon(ft, v[fn])) for fn, ft in s.fields) + "}"
        if k == "oref" and isinstance(v, dict):
            return "#%d" % v["id"]
        if k == "oref":
            return "N" if v is None else "#%d" % self.objs[v].id
        if k == "obox":
            return "N" if v is None else "#%d" % v["id"]
        if k == "opt":
            return "N" if v is None else "S(%s)" % self.canon(t[1], v[1])
        if k in ("slice", "oslice"):
            p = t[1] if t[1] != "DiplomatByte" else "u8"
            return "[" + ",".join(self.canon(("prim", p), x) for x in v["items"]) + "]"
        if k in ("str", "ostr"):
            if t[1] == "u16":
                return "[" + ",".join("%04x" % x for x in v["data"]) + "]"
            return '"' + "".join("%02x" % x for x in v["data"]) + '"'
        if k == "strs":
            if t[1] == "u16":
                return "[" + ",".join("[" + ",".join("%04x" % x for x in s) + "]" for s in v["strs"]) + "]"
            return "[" + ",".join('"' + "".join("%02x" % x for x in s) + '"' for s in v["strs"]) + "]"
        if k == "cb":
            return "cb"
        if k == "tr":
            return "tr"
        if k == "write":
            return "w"
        if k == "unit":
            return "()"
        if k == "ordering":
            return "%02x" % (v & 0xff)
        if k == "result":
            arm, pv = v
            return "%s(%s)" % ("O" if arm == "ok" else "E", self.canon(t[1] if arm == "ok" else t[2], pv))
        raise ValueError(t)

    def canon_ret(self, t, v, m, args):
        """canonical form of a returned value as the foreign side sees it (borrowed data resolved)."""
        k = t[0]
        if k == "struct":
            s = self.prog.find(t[1])
            return "{" + ",".join("%s:%s" % (fn, self.canon_ret(ft, v[fn], m, args)) for fn, ft in s.fields) + "}"
        if k == "oref":
            if v is None:
                return "N"
            if v[0] == "self":
                return "#%d" % self.objs[args["self"]].id
            return "#%d" % self.objs[args[v[1]]].id
        if k == "opt":
            return "N" if v is None else "S(%s)" % self.canon_ret(t[1], v[1], m, args)
        if k == "result":
            arm, pv = v
            return "%s(%s)" % ("O" if arm == "ok" else "E", self.canon_ret(t[1] if arm == "ok" else t[2], pv, m, args))
        if k == "slice":
            if v[0] == "static":
                return self.canon(t, {"items": v[1]})
            return self.canon(t, args[v[1]])
        if k == "str":
            if v[0] == "static":
                return self.canon(t, {"data": v[1]})
            return self.canon(t, args[v[1]])
        return self.canon(t, v)

    # ------------------------------------------------------------ object bookkeeping
    def new_obj(self, ty):
        o = Obj(ty, len(self.objs))
        self.objs.append(o)
        return o

    def realize_new(self, t, v, out_lines, created):
        """Walk a return value in evaluation order, allocating ids for created opaques."""
        k = t[0]
        if k == "obox" and v is not None:
            o = self.new_obj(t[1])
            o.id = self.next_id
            self.next_id += 1
            o.alive = True
            v["id"] = o.id
            v["h"] = o.h
            out_lines.append("NEW %s#%d" % (t[1], o.id))
            created.append(o)
        elif k == "struct":
            s = self.prog.find(t[1])
            for fn, ft in s.fields:
                self.realize_new(ft, v[fn], out_lines, created)
        elif k == "opt" and v is not None:
            self.realize_new(t[1], v[1], out_lines, created)
        elif k == "result":
            self.realize_new(t[1] if v[0] == "ok" else t[2], v[1], out_lines, created)

    def lend_temporaries(self, argtypes, argvals, lines, tag):
        """Opaque references among the arguments of one callback / trait-method invocation: the Rust body creates one temporary per
        reference (NEW), lends it, and drops them in reverse order after the invocation (DROP).
        -> (Rust statements creating them, Rust argument expressions, DROP lines to append after CBRET)"""
        from emit_rust import value_expr
        pre, exprs, drops = [], [], []
        self.cb_during = []          # records expected between CB and CBRET: objects the callback was given for good and destroys itself
        for i, (a, av) in enumerate(zip(argtypes, argvals)):
            if a[0] == "obox" and isinstance(av, dict):
                av["id"] = self.next_id
                self.next_id += 1
                lines.append(("R", "NEW %s#%d" % (a[1], av["id"])))
                # created by a statement of its own, in argument order, like the lent temporaries next to it (ids follow creation order)
                nm = "vf_b%s_%d" % (tag, i)
                pre.append("let %s = Box::new(crate::%s::%s::vf_new(%d));" % (nm, [m.name for m in self.prog.modules if self.prog.find(a[1]) in m.items][0], a[1], av["tmp"]))
                exprs.append(nm)
                self.cb_during.append(("R", "DROP %s#%d" % (a[1], av["id"])))
                continue
            if a[0] == "oref" and isinstance(av, dict):
                av["id"] = self.next_id
                self.next_id += 1
                lines.append(("R", "NEW %s#%d" % (a[1], av["id"])))
                nm = "vf_t%s_%d" % (tag, i)
                pre.append("let mut %s = crate::%s::%s::vf_new(%d);" % (nm, [m.name for m in self.prog.modules if self.prog.find(a[1]) in m.items][0], a[1], av["tmp"]))
                exprs.append(("&mut " if a[2] else "&") + nm)
                drops.insert(0, ("R", "DROP %s#%d" % (a[1], av["id"])))
            else:
                exprs.append(cbarg_expr(self.prog, a, av))
        return pre, exprs, drops

    # ------------------------------------------------------------ script construction
    def call(self, owner, m, force_self=None, force_args=None, force_ret=None):
        r = self.r
        n = self.counts.get(m.abi_name, 0)
        self.counts[m.abi_name] = n + 1
        args = {}
        if m.self_kind:
            if owner.kind == "opaque":
                cands = [o for o in self.objs if o.ty == owner.name and o.alive]
                args["self"] = force_self if force_self is not None else r.choice(cands).h
            elif owner.kind == "enum":
                args["self"] = self.value(("enum", owner.name))
            else:
                args["self"] = self.value(("struct", owner.name))
        for pn, pt in m.params:
            args[pn] = self.value(pt) if force_args is None or pn not in force_args else force_args[pn]
        # no two &mut to the same object, and &mut excludes & to the same object (Rust aliasing rules
        # would make the *driver* the source of UB otherwise)
        muts = []
        if m.self_kind and m.self_kind[0] == "mut":
            muts.append(args["self"])
        used = []
        if m.self_kind and m.self_kind[0] == "ref" and owner.kind == "opaque":
            used.append(args["self"])
        for pn, pt in m.params:
            hs = []
            if pt[0] == "oref" and args[pn] is not None:
                hs.append((args[pn], pt[2]))
            if pt[0] in ("struct", "opt"):
                hs += [(h, False) for h in self.struct_handles(pt, args[pn])]
            for h, is_mut in hs:
                if h in muts or (is_mut and h in used):
                    return self.call_retry(owner, m, n, force_self)
                (muts if is_mut else used).append(h)
        if self.lang == "cpp" and force_args is None:
            direct = [pn for pn, pt in m.params if pt[0] == "str" and pt[1] == "utf8"]
            # owned slices / strings and callbacks next to the rejected string (seed C03-g): whatever the wrapper prepared for Rust before
            # it validated must be released again: the callable given by value dies with the call (CBDROP before RET, nothing leaked)
            owning = any(pt[0] in ("oslice", "ostr", "cb") or (pt[0] == "opt" and pt[1][0] in ("oslice", "ostr")) for _, pt in m.params)
            if sum(1 for _, pt in m.params if pt[0] == "cb") > 1:
                direct = []          # the order in which a C++ compiler destroys several by-value arguments is its own business
            if direct and r.random() < (0.6 if owning else 0.3 if len(direct) == 1 else 0.5):
                # (a parameter whose Rust name the C++ formatter has to escape is validated under its escaped name: seed C02-j)
                import spec as spec_
                kw = [pn for pn in direct if pn in spec_.KEYWORD_PARAMS]
                bad = r.choice(kw) if kw else r.choice(direct)
                args[bad] = {"data": r.choice([b"\xff", b"ok\xc3", b"\xed\xa0\x80", b"a\x80b", b"\xf4\x90\x80\x80", b"\xc0\xaf"]), "null": False}
                self.counts[m.abi_name] = n          # Rust is never reached: the per-method call counter does not advance
                exp = [("C", "CBDROP %d" % args[pn]["cb"]) for pn, pt in m.params if pt[0] == "cb" and args[pn]["destructor"]]
                exp.append(("C", "RET %s#- UTF8ERR" % m.abi_name))
                step = {"kind": "call", "owner": owner, "m": m, "n": n, "args": args, "ret": None, "rejected": True, "created": [],
                        "expect": exp}
                self.steps.append(step)
                self.expected += [l for _, l in exp]
                return step
        ret = self.ret_value(m.ret, m, args) if force_ret is None else force_ret
        if m.script is None:
            m.script = {"rets": [], "effects": []}
        step = {"kind": "call", "owner": owner, "m": m, "n": n, "args": args, "ret": ret}
        # ---- expected events
        lines = []
        cargs = []
        if m.self_kind:
            if owner.kind == "opaque":
                cargs.append("#%d" % self.objs[args["self"]].id)
            else:
                cargs.append(self.canon((owner.kind, owner.name), args["self"]))
        for pn, pt in m.params:
            cargs.append(self.canon(pt, args[pn]))
        lines.append(("R", "CALL %s#%d%s" % (m.abi_name, n, "".join(" " + a for a in cargs))))
        effects = []
        from emit_rust import value_expr, rust_ident
        if getattr(m, "special", None) == "invoke":
            # one invocation of the callback the holder keeps
            hobj = self.objs[args["self"]]
            ht = owner.holder
            cargs_v = [self.value(a, "cbarg") for a in ht[1]]
            cret = None if ht[2] == ("unit",) else self.value(ht[2], "cbret")
            j = len(hobj.cb["inv"])
            hobj.cb["inv"].append((cargs_v, cret))
            tpre, texprs, tdrops = self.lend_temporaries(ht[1], cargs_v, lines, "h%d" % j)
            lines.append(("C", "CB %d#%d%s" % (hobj.cb["cb"], j, "".join(" " + self.canon(a, av) for a, av in zip(ht[1], cargs_v)))))
            lines += self.cb_during
            lines.append(("R", "CBRET %s" % ("()" if ht[2] == ("unit",) else self.canon(ht[2], cret))))
            lines += tdrops
            effects.append("{ %s let vf_r = (self.held)(%s); crate::vf::log(format!(\"CBRET {}\", crate::vf::c(&vf_r))); }" % (" ".join(tpre), ", ".join(texprs)))
        for pn, pt in m.params:
            if pt[0] == "cb" and not args[pn].get("held"):
                cbv = args[pn]
                for j, (cargs_v, cret) in enumerate(cbv["inv"]):
                    tpre, texprs, tdrops = self.lend_temporaries(pt[1], cargs_v, lines, "c%d" % j)
                    lines.append(("C", "CB %d#%d%s" % (cbv["cb"], j, "".join(" " + self.canon(a, av) for a, av in zip(pt[1], cargs_v)))))
                    lines += self.cb_during
                    lines.append(("R", "CBRET %s" % ("()" if pt[2] == ("unit",) else self.canon(pt[2], cret))))
                    lines += tdrops
                    call = "%s(%s)" % (rust_ident(pn), ", ".join(texprs))
                    effects.append("{ %s let vf_r = %s; crate::vf::log(format!(\"CBRET {}\", crate::vf::c(&vf_r))); }" % (" ".join(tpre), call))
            if pt[0] == "tr":
                trv = args[pn]
                for j, (mi, targs_v, tret) in enumerate(trv["inv"]):
                    mname, _, margs, mret = pt[2][mi]
                    tpre, texprs, tdrops = self.lend_temporaries(margs, targs_v, lines, "t%d" % j)
                    lines.append(("C", "CB %d#%d %s%s" % (trv["cb"], j, mname, "".join(" " + self.canon(a, av) for a, av in zip(margs, targs_v)))))
                    lines += self.cb_during
                    lines.append(("R", "CBRET %s" % ("()" if mret == ("unit",) else self.canon(mret, tret))))
                    lines += tdrops
                    call = "%s.%s(%s)" % (rust_ident(pn), mname, ", ".join(texprs))
                    effects.append("{ %s let vf_r = %s; crate::vf::log(format!(\"CBRET {}\", crate::vf::c(&vf_r))); }" % (" ".join(tpre), call))
            if pt[0] == "write":
                for ch in args[pn]["chunks"]:
                    # the three entry points bridge code really uses; each delivers the chunk as one write
                    style = r.random()
                    if len(ch) == 1 and style < 0.5:
                        effects.append("let _ = %s.write_char('\\u{%x}');" % (rust_ident(pn), ord(ch)))
                    elif style < 0.3:
                        effects.append("let _ = write!(%s, \"{}\", %s);" % (rust_ident(pn), rust_str_lit(ch)))
                    else:
                        effects.append("let _ = %s.write_str(%s);" % (rust_ident(pn), rust_str_lit(ch)))
                    if r.random() < 0.2:
                        # a flush in the middle of the output (helpers written before the macro flushed for them end with one): flush() is
                        # public and idempotent, what follows must still arrive (seed C02-h: the writer's idea of its capacity went stale)
                        effects.append("%s.flush();" % rust_ident(pn))
        created = []
        self.realize_new(m.ret, ret, lines_r := [], created)
        lines += [("R", l) for l in lines_r]
        # Rust drops locals, then parameters, each in reverse declaration order; the generated body rebinds (`let mut p = p;`) the
        # parameters it calls through &mut (FnMut callbacks, traits with a &mut self method), which makes them locals
        rebound = lambda pt: (pt[0] == "cb" and pt[3]) or (pt[0] == "tr" and any(mm for _, mm, _, _ in pt[2]))
        drop_order = [x for x in reversed(m.params) if rebound(x[1])] + [x for x in reversed(m.params) if not rebound(x[1])]
        for pn, pt in m.params:
            if pt[0] == "cb" and args[pn].get("held"):
                created[0].cb = args[pn]              # the new holder owns it from here on
        for pn, pt in drop_order:
            if pt[0] in ("cb", "tr") and args[pn]["destructor"] and not args[pn].get("held"):
                lines.append(("C", "CBDROP %d" % args[pn]["cb"]))
        wparams = [args[pn] for pn, pt in m.params if pt[0] == "write"]
        if self.lang in ("cpp", "js") and wparams:
            text = '"' + "".join(c.encode("utf-8").hex() for c in wparams[0]["chunks"]) + '"'
            if m.ret == ("unit",):
                rc = text
            elif m.ret[0] == "opt":
                rc = "S(%s)" % text if ret is not None else "N"
            elif ret[0] == "ok":
                rc = "O(%s)" % text
            else:
                rc = self.canon_ret(m.ret, ret, m, args)
            lines.append(("C", "RET %s#%d %s" % (m.abi_name, n, rc)))
        else:
            lines.append(("C", "RET %s#%d %s" % (m.abi_name, n, self.canon_ret(m.ret, ret, m, args))))
        for pn, pt in m.params:
            if pt[0] == "slice" and pt[2] and self.lang != "js":      # JS copies the array into wasm memory: the mutation is not visible to the caller
                lines.append(("C", "MUT %s %s" % (pn, self.canon(pt, {"items": [mutate(pt[1], x) for x in args[pn]["items"]]}))))
            if pt[0] == "write" and self.lang == "c":
                lines.append(("C", "WR %s" % write_expect(args[pn])))
        m.script["rets"].append(ret)
        m.script["effects"].append(effects)
        step["expect"] = lines
        step["created"] = created
        self.steps.append(step)
        self.expected += [l for _, l in lines]
        return step

    def call_retry(self, owner, m, n, force_self):
        # undo the counter and try again with fresh values (aliasing conflict)
        self.counts[m.abi_name] = n
        self._retry = getattr(self, "_retry", 0) + 1
        if self._retry > 50:
            self._retry = 0
            return None
        return self.call(owner, m, force_self)

    def struct_handles(self, t, v):
        out = []
        if v is None:
            return out
        if t[0] == "opt":
            return self.struct_handles(t[1], v[1])
        if t[0] == "struct":
            s = self.prog.find(t[1])
            for fn, ft in s.fields:
                if ft[0] == "oref" and v[fn] is not None:
                    out.append(v[fn])
                elif ft[0] in ("struct", "opt"):
                    out += self.struct_handles(ft, v[fn])
        return out

    def destroy(self, o):
        if self.lang == "js":
            return                      # no explicit destruction in JS: the FinalizationRegistry decides (checked separately)
        o.alive = False
        exp = [("R", "DROP %s#%d" % (o.ty, o.id))]
        if getattr(o, "cb", None) and o.cb["destructor"]:
            exp.append(("C", "CBDROP %d" % o.cb["cb"]))          # Drop::drop of the holder logs first, then its fields go
        self.steps.append({"kind": "destroy", "obj": o, "expect": exp})
        self.expected += [l for _, l in exp]

    def build(self, ncalls):
        prog, r = self.prog, self.r
        opaques = [t for t in prog.types() if t.kind == "opaque"]
        for op in opaques:
            mk = [m for m in op.methods if m.name == "make"][0]
            for _ in range(2):
                self.call(op, mk)
        callable_methods = [(t, m) for t, m in prog.methods() if m.name not in ("make", "vf_id")]
        if not callable_methods:
            callable_methods = [(t, m) for t, m in prog.methods() if m.name == "make"]
        # every method at least once, then random
        order = list(callable_methods)
        r.shuffle(order)
        while len(order) < ncalls:
            order.append(r.choice(callable_methods))
        holders = [(t, [m for m in t.methods if getattr(m, "special", None) == "invoke"][0]) for t in opaques if getattr(t, "holder", None)]
        for t, m in order:
            self.call(t, m)
            if holders and r.random() < 0.3:
                ht, hm = r.choice(holders)
                if any(o.alive and o.ty == ht.name for o in self.objs):
                    self.call(ht, hm)
            if r.random() < 0.12:
                cands = [o for o in self.objs if o.alive and o.owned and sum(1 for x in self.objs if x.alive and x.ty == o.ty) > 1]
                if cands:
                    self.destroy(r.choice(cands))
        for o in self.objs:
            if o.alive and o.owned:
                self.destroy(o)
        return self


def mutate(p, bits):
    if p in INTS or p == "DiplomatByte":
        w = prim_bits(p)
        return (bits + 1) & ((1 << w) - 1)
    if p in FLOATS:
        w = prim_bits(p)
        return bits ^ (1 << (w - 1))
    if p == "bool":
        return 0 if bits else 1
    return bits


def rust_str_lit(s):
    if len(s) > 200 and s.isalnum() and s.isascii():
        return '"' + s + '"'
    return '"' + "".join("\\u{%x}" % ord(c) for c in s) + '"'


def write_expect(w):
    """What the C side observes after the call: (hex of contents, failed flag)."""
    chunks = [c.encode("utf-8") for c in w["chunks"]]
    if w["mode"] == "buffer":
        data = b"".join(chunks)
        return '"%s" failed=0' % data.hex()
    cap = w["size"] - 1
    buf = b""
    failed = False
    for c in chunks:
        if failed:
            continue
        if len(buf) + len(c) > cap:
            failed = True
        else:
            buf += c
    return '"%s" failed=%d nul=1' % (buf.hex(), 1 if failed else 0)
