"""Backend feature profiles, read from the working tree's attr_support() bodies at check time."""
import os
import re

from common import REPO

FLAGS = ["namespacing", "memory_sharing", "non_exhaustive_structs", "method_overloading", "utf8_strings", "utf16_strings",
         "static_slices", "constructors", "named_constructors", "fallible_constructors", "accessors", "static_accessors",
         "stringifiers", "comparators", "iterators", "iterables", "indexing", "arithmetic", "option", "callbacks", "traits",
         "custom_errors", "traits_are_send", "traits_are_sync"]
_cache = {}


def support(backend):
    if backend in _cache:
        return _cache[backend]
    d = "nanobind" if backend in ("nanobind", "py-nanobind") else backend
    src = open(os.path.join(REPO, "tool", "src", d, "mod.rs")).read()
    m = re.search(r"fn attr_support\(\)[^{]*\{(.*?)\n\}", src, re.S)
    body = m.group(1) if m else ""
    base = {f: False for f in FLAGS}
    inh = re.search(r"let mut a = (\w+)::attr_support\(\)", body)
    if inh:
        base = dict(support(inh.group(1)))
    for f, v in re.findall(r"a\.(\w+)\s*=\s*(true|false)", body):
        base[f] = v == "true"
    _cache[backend] = base
    return base


def gen_profile(backend):
    """Generator profile: only productions the lowering gate admits for this backend."""
    s = support(backend)
    return dict(option=s["option"], callbacks=s["callbacks"], static_slices=s["static_slices"])
