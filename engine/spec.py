"""Bridge IR ("Spec") and the seeded grammar-based generator of *valid* bridge modules.

Types are tuples:
  ("prim", p)                      p in PRIMS (plus "char", "DiplomatChar", "DiplomatByte")
  ("enum", Name) ("struct", Name)  by value (struct may be an out-struct when used as a return)
  ("oref", Name, mut, lt, optional)        &'lt [mut] Name  /  Option<&'lt [mut] Name>
  ("obox", Name, optional)                 Box<Name> / Option<Box<Name>>      (outputs only)
  ("opt", inner, spelling)         spelling "std" (Option<T>) | "dip" (DiplomatOption<T>); inner prim/enum/struct/slice/str/strs
  ("slice", prim, mut, lt, sp)     &'lt [mut] [prim]  (sp "std") or DiplomatSlice<'lt, prim> / DiplomatSliceMut (sp "dip")
  ("oslice", prim)                 Box<[prim]>
  ("str", enc, lt, sp)             enc utf8 | ustr | u16 ; &'lt str / &DiplomatStr / &DiplomatStr16 or the Diplomat*Slice types
  ("ostr", enc)                    Box<str> / Box<DiplomatStr> / Box<DiplomatStr16>
  ("strs", enc)                    &[DiplomatStrSlice] / &[DiplomatStr16Slice]
  ("result", ok, err, spelling)    ok / err may be ("unit",)
  ("unit",) ("ordering",) ("write",)
  ("cb", [argtypes], ret, mutable[, "static"]) impl Fn(..) -> ret / impl FnMut [+ 'static: kept by a holder opaque]
  ("tr", Name, [(method, mutable_self, [argtypes], ret)])   impl Name, a `pub trait Name` declared in the owner's module
lt is None (anonymous / elided), "static", or a lifetime name without the tick.
"""
import random as random_mod
import random

INTS = {
    "i8": (8, True), "u8": (8, False), "i16": (16, True), "u16": (16, False),
    "i32": (32, True), "u32": (32, False), "i64": (64, True), "u64": (64, False),
    "isize": (64, True), "usize": (64, False),
}
FLOATS = {"f32": 32, "f64": 64}
PRIMS = list(INTS) + list(FLOATS) + ["bool", "char", "DiplomatChar"]
SLICE_PRIMS = list(INTS) + list(FLOATS) + ["bool", "DiplomatChar", "DiplomatByte"]

# every C11 / C++20 keyword that is an ordinary identifier for rustc (the escaping tables of the C / C++ formatters are looked up by name)
C_FAMILY_KEYWORDS = ['_Alignas', '_Alignof', '_Atomic', '_Bool', '_Complex', '_Generic', '_Imaginary', '_Noreturn', '_Static_assert', '_Thread_local', 'alignas', 'alignof', 'and', 'and_eq', 'asm', 'atomic_cancel', 'atomic_commit', 'atomic_noexcept', 'auto', 'bitand', 'bitor', 'bool', 'case', 'catch', 'char', 'char16_t', 'char32_t', 'char8_t', 'class', 'co_await', 'co_return', 'co_yield', 'compl', 'concept', 'const_cast', 'consteval', 'constexpr', 'constinit', 'decltype', 'default', 'delete', 'double', 'dynamic_cast', 'explicit', 'export', 'float', 'friend', 'goto', 'inline', 'int', 'long', 'mutable', 'namespace', 'new', 'noexcept', 'not', 'not_eq', 'nullptr', 'operator', 'or', 'or_eq', 'private', 'protected', 'public', 'reflexpr', 'register', 'reinterpret_cast', 'requires', 'restrict', 'short', 'signed', 'sizeof', 'static_assert', 'static_cast', 'switch', 'synchronized', 'template', 'this', 'thread_local', 'throw', 'typedef', 'typeid', 'typename', 'union', 'unsigned', 'using', 'void', 'volatile', 'wchar_t', 'xor', 'xor_eq']
# C++ keywords that are *typedef names* in C (<uchar.h>, <stddef.h>), which the generated C headers themselves use: a parameter of that name
# is a separate matter (known finding F61, probed by C09), kept out of the general pool
TYPEDEF_LIKE = ["char8_t", "char16_t", "char32_t", "wchar_t"]
C_FAMILY_KEYWORDS = [k for k in C_FAMILY_KEYWORDS if k not in TYPEDEF_LIKE]
KEYWORD_PARAMS = ["this", "int", "class", "default", "new", "register", "template", "char", "double", "typename",
                  "namespace", "delete", "operator", "signed", "union", "volatile", "auto", "switch", "short", "long"] + C_FAMILY_KEYWORDS + ["implements", "interface", "package", "arguments", "eval"] + [
                  # not reserved themselves, but become reserved words once a backend re-cases them (lowerCamelCase drops the underscores)
                  "new_", "in_", "for_", "default_", "_new", "with_", "delete_", "class_", "_class", "import_", "var_", "function_"]


def prim_bits(p):
    if p in INTS:
        return INTS[p][0]
    if p in FLOATS:
        return FLOATS[p]
    if p == "bool":
        return 8
    if p in ("char", "DiplomatChar"):
        return 32
    if p == "DiplomatByte":
        return 8
    raise KeyError(p)


class Enum:
    kind = "enum"

    def __init__(self, name, variants):
        self.name = name
        self.variants = variants      # [(vname, explicit or None)]
        self.methods = []
        self.attrs = []
        self.lifetimes = []

    def values(self):
        out, cur = [], -1
        for _, e in self.variants:
            cur = e if e is not None else cur + 1
            out.append(cur)
        return out


class Struct:
    def __init__(self, name, fields, out=False, lifetimes=None):
        self.name = name
        self.fields = fields          # [(fname, type)]
        self.out = out
        self.kind = "outstruct" if out else "struct"
        self.lifetimes = lifetimes or []
        self.methods = []
        self.attrs = []
        self.field_attrs = {}


class Opaque:
    kind = "opaque"

    def __init__(self, name, lifetimes=None):
        self.name = name
        self.lifetimes = lifetimes or []
        self.methods = []
        self.attrs = []
        self.mutable_ok = True
        self.holder = None            # ("cb", args, ret, mutable, "static"): the opaque owns a boxed callback (feature_tests' CallbackHolder)


class Method:
    def __init__(self, name, self_kind, params, ret, lifetimes=None, bounds=None):
        self.name = name
        self.self_kind = self_kind    # None | ("ref", lt) | ("mut", lt) | ("val",)
        self.params = params          # [(pname, type)]
        self.ret = ret
        self.lifetimes = lifetimes or []
        self.bounds = bounds or []    # [(longer, shorter)]
        self.attrs = []
        self.abi_name = None          # filled by emit (documented scheme) for drivers
        self.owner = None
        self.script = None            # runtime legs: return table etc.


class Module:
    def __init__(self, name):
        self.name = name
        self.items = []
        self.attrs = []
        self.extra_src = ""           # free text placed inside the module (probes)


class Program:
    def __init__(self, name):
        self.name = name
        self.modules = []
        self.prelude = ""             # text before the modules (e.g. #[diplomat::config] items)
        self.epilogue = ""            # text after

    def types(self):
        for m in self.modules:
            for t in m.items:
                yield t

    def find(self, name):
        for t in self.types():
            if t.name == name:
                return t
        raise KeyError(name)

    def methods(self):
        for t in self.types():
            for m in t.methods:
                yield t, m


# --------------------------------------------------------------------------
# shape signatures (for distinct_nontrivial)
# --------------------------------------------------------------------------

def ty_sig(t):
    k = t[0]
    if k == "raw":
        return "raw:" + t[1]
    if k == "prim":
        return t[1]
    if k in ("enum", "struct"):
        return k
    if k == "oref":
        return ("O?" if t[4] else "") + ("&mut" if t[2] else "&") + "op" + ("'" + str(t[3]) if t[3] else "")
    if k == "obox":
        return ("O?" if t[2] else "") + "box"
    if k == "opt":
        return "%s<%s>" % ("Option" if t[2] == "std" else "DOpt", ty_sig(t[1]))
    if k == "slice":
        return "%s[%s]%s" % ("&mut" if t[2] else "&", t[1], "'" + str(t[3]) if t[3] else "")
    if k == "oslice":
        return "Box[%s]" % t[1]
    if k == "str":
        return "&%s%s" % (t[1], "'" + str(t[2]) if t[2] else "")
    if k == "ostr":
        return "Box%s" % t[1]
    if k == "strs":
        return "&[%s]" % t[1]
    if k == "result":
        return "R%s<%s,%s>" % ("" if t[3] == "std" else "d", ty_sig(t[1]), ty_sig(t[2]))
    if k == "cb":
        return "cb%s(%s)->%s" % ("'static" if len(t) > 4 else "", ",".join(ty_sig(a) for a in t[1]), ty_sig(t[2]))
    if k == "tr":
        return "tr{%s}" % ";".join("%s(%s)->%s" % ("mut" if mm else "ref", ",".join(ty_sig(a) for a in ma), ty_sig(mr)) for _, mm, ma, mr in t[2])
    return k


def is_trivial_sig(s):
    return all(tok in PRIMS or tok in ("unit", "") for tok in s.replace("->", ",").replace("(", ",").replace(")", ",").split(","))


def method_sig(owner, m):
    sk = m.self_kind[0] if m.self_kind else "static"
    dip = getattr(m, "dip_params", ())
    return "%s:%s(%s)->%s" % (owner.kind, sk, ",".join(ty_sig(t) + ("~dip" if pn in dip else "") for pn, t in m.params), ty_sig(m.ret))


# --------------------------------------------------------------------------
# generator
# --------------------------------------------------------------------------

DEFAULT_PROFILE = dict(
    option=True, callbacks=True, utf8=True, utf16=True, static_slices=True, strs=True,
    owned_slices=True, mut_slices=True, write=True, struct_slices=True, struct_orefs=True,
    borrowed_returns=True, out_structs=True, struct_methods=True, enum_methods=True,
    dip_spellings=True, result_dip=False, keyword_params=True, nested_structs=True,
    max_params=5, cb_struct_args=True, opt_slices=True, char=False, ordering=True,
    mut_self=True, opt_mut_oref=True, namespaces=False, byte_slices=True, renames=False,
    strs_utf8=False, result_prim_err=True, opt_owned=False, write_prob=0.18, cb_opt=True, cb_slices=True, cb_strs=True, cb_aggr_ret=True, traits=False, trait_prob=0.5, held_callbacks=False, self_spelling=True, opt_strs=True, cb_orefs=False, opt_slice_fields=False, trait_method_disable=0.0, dip_params=0.2, impl_split=0.25, multi_cb=False, cb_oboxes=False,
)


class Gen:
    def __init__(self, rng, profile=None, n_opaques=(1, 2), n_structs=(1, 3), n_enums=(1, 2),
                 n_methods=(3, 7), name="prog"):
        self.r = rng
        self.p = dict(DEFAULT_PROFILE)
        if profile:
            self.p.update(profile)
        self.n_opaques, self.n_structs, self.n_enums, self.n_methods = n_opaques, n_structs, n_enums, n_methods
        self.name = name
        self.enums, self.structs, self.outstructs, self.opaques = [], [], [], []
        self.traits = []
        self.trait_mattrs = {}        # (trait, method) -> attribute text: backend attributes on trait methods (seed C01-g: a disabled slot must stay in the vtable)
        self.counter = 0

    # ---- helpers
    def ri(self, a, b):
        return self.r.randint(a, b)

    def pick(self, xs):
        return xs[self.r.randrange(len(xs))]

    def chance(self, p):
        return self.r.random() < p

    def fresh(self, base):
        self.counter += 1
        return "%s%d" % (base, self.counter)

    def prims(self):
        ps = list(INTS) + list(FLOATS) + ["bool", "DiplomatChar"]
        if self.p["char"]:
            ps.append("char")
        return ps

    # ---- type definitions
    def gen_enum(self, style=None, n=None):
        n = n or self.ri(1, 8)
        style = style or self.pick(["implicit", "explicit", "negative", "gaps", "extreme", "zero_contig", "one_contig", "mixed", "perm", "perm"])
        perm = list(range(n))
        if style == "perm":
            while n > 1 and perm == list(range(n)):
                self.r.shuffle(perm)
        variants, used, cur = [], set(), -1
        for i in range(n):
            vname = "V%s" % "abcdefgh"[i]
            e = None
            if style == "explicit":
                e = self.ri(-50, 50)
            elif style == "negative":
                e = -self.ri(1, 1000) if i == 0 or self.chance(0.3) else None
            elif style == "gaps":
                e = cur + self.ri(1, 9) if self.chance(0.6) else None
            elif style == "extreme":
                e = self.pick([-2147483648, 2147483647 - n, 0, -1, 65536, 2147483647]) if self.chance(0.5) else None
            elif style == "one_contig":
                e = 1 if i == 0 else None
            elif style == "perm":
                e = perm[i]
            elif style == "mixed":
                e = self.ri(-300, 300) if self.chance(0.4) else None
            val = e if e is not None else cur + 1
            if val in used or val > 2147483647 or val < -2147483648:
                # keep discriminants unique and inside i32
                val = max(used) + 1 if used else 0
                if val > 2147483647:
                    break
                e = val
            used.add(val)
            cur = val
            variants.append((vname, e))
        en = Enum(self.fresh("En"), variants)
        # the same values written as hex / octal / binary literals or with digit separators (the AST parses the literal itself)
        en.lit_styles = {vn: self.pick(["hex", "oct", "bin", "under", "hexu"]) for vn, e in variants if e is not None and abs(e) < 2 ** 31 and self.chance(0.35)}
        self.enums.append(en)
        return en

    def field_type(self, depth, lifetimes, out):
        """A type allowed in a struct field."""
        c = self.r.random()
        if c < 0.45 or depth > 2:
            return ("prim", self.pick(self.prims()))
        if c < 0.55 and self.enums:
            return ("enum", self.pick(self.enums).name)
        if c < 0.65 and self.structs and self.p["nested_structs"]:
            cands = [s for s in self.structs if not s.lifetimes or lifetimes is not None]
            if not cands:
                return ("prim", self.pick(self.prims()))
            s = self.pick(cands)
            if s.lifetimes and lifetimes is not None:
                lifetimes.add("a")
            return ("struct", s.name)
        if c < 0.78 and self.p["option"]:
            inner = self.pick([("prim", self.pick(self.prims()))] + ([("enum", self.pick(self.enums).name)] if self.enums else [])
                              + ([("struct", s.name) for s in self.structs if not s.lifetimes][:1]))
            return ("opt", inner, "dip")
        if c < 0.86 and self.p["struct_slices"] and lifetimes is not None:
            lifetimes.add("a")
            if self.p["opt_slice_fields"] and self.chance(0.4):
                # an optional borrowed slice / string as a field (tool-level checks only: the drivers have no model for it)
                inner = self.pick([("slice", self.pick(SLICE_PRIMS[:-1]), False, "a", "dip"), ("str", "ustr", "a", "dip")] + ([("str", "u16", "a", "dip")] if self.p["utf16"] else []))
                return ("opt", inner, "dip")
            if self.chance(0.5):
                return ("slice", self.pick(SLICE_PRIMS[:-1]), False, "a", "dip")
            encs = ["ustr"] + (["u16"] if self.p["utf16"] else []) + (["utf8"] if self.p["utf8"] else [])
            return ("str", self.pick(encs), "a", "dip")
        if c < 0.94 and self.p["struct_orefs"] and lifetimes is not None and self.opaques:
            lifetimes.add("a")
            return ("oref", self.pick(self.opaques).name, False, "a", self.chance(0.5))
        if out and self.opaques:
            return ("obox", self.pick(self.opaques).name, self.chance(0.4))
        return ("prim", self.pick(self.prims()))

    def gen_struct(self, out=False):
        n = self.ri(1, 6)
        lts = set()
        allow_lt = self.chance(0.35) and not out
        fields = []
        for i in range(n):
            t = self.field_type(0, lts if allow_lt else None, out)
            fields.append(("f%d" % i, t))
        if out and self.opaques and not any(f[1][0] == "obox" for f in fields):
            fields.append(("f%d" % n, ("obox", self.pick(self.opaques).name, self.chance(0.3))))
        s = Struct(self.fresh("Out" if out else "St"), fields, out=out, lifetimes=sorted(lts))
        (self.outstructs if out else self.structs).append(s)
        return s

    # ---- method signatures
    def cb_arg(self):
        """Argument type of a callback or of a trait method (values Rust hands to foreign code)."""
        p = self.p
        if p.get("cb_oboxes") and [o for o in self.opaques if not o.lifetimes] and self.chance(0.12):
            # an object handed to foreign code for good: the callback owns it from here on (C / Rust drivers; C++ cannot express it, F52)
            return ("obox", self.pick([o for o in self.opaques if not o.lifetimes]).name, False)
        cc = self.r.random()
        if cc < 0.6:
            return ("prim", self.pick(self.prims()))
        if cc < 0.75 and self.enums:
            return ("enum", self.pick(self.enums).name)
        if cc < 0.9 and p["cb_struct_args"] and [s for s in self.structs if not s.lifetimes]:
            return ("struct", self.pick([s for s in self.structs if not s.lifetimes]).name)
        if p["cb_orefs"] and self.chance(0.3) and [o for o in self.opaques if not o.lifetimes]:
            # a reference to an opaque handed to foreign code for the duration of the call (needs `unsafe_references_in_callbacks`)
            return ("oref", self.pick([o for o in self.opaques if not o.lifetimes]).name, self.chance(0.4), None, False)
        if p["cb_opt"] and p["option"] and self.chance(0.4):
            return ("opt", ("prim", self.pick(self.prims())), "dip" if (p["dip_spellings"] and self.chance(0.3)) else "std")
        if p["cb_slices"] and self.chance(0.5):
            return ("slice", self.pick(SLICE_PRIMS[:-1]), False, None, "std")
        if p["cb_strs"] and self.chance(0.6):
            encs = ["ustr"] + (["u16"] if p["utf16"] else []) + (["utf8"] if p["utf8"] else [])
            return ("str", self.pick(encs), None, "std")
        return ("prim", self.pick(self.prims()))

    def cb_ret(self):
        p = self.p
        if self.chance(0.3):
            return ("unit",)
        if p["cb_opt"] and p["option"] and self.chance(0.25):
            return ("opt", ("prim", self.pick(self.prims())), "dip" if (p["dip_spellings"] and self.chance(0.3)) else "std")
        if p["cb_aggr_ret"] and self.chance(0.25):
            plain = [s for s in self.structs if not s.lifetimes]
            if self.enums and (not plain or self.chance(0.5)):
                return ("enum", self.pick(self.enums).name)
            if plain:
                return ("struct", self.pick(plain).name)
        return ("prim", self.pick(self.prims()))

    def gen_trait(self):
        """("tr", Name, [(method, mutable_self, [argtypes], ret)]): a trait declared next to the method that consumes `impl Name`."""
        meths = []
        for j in range(self.ri(1, 4)):
            meths.append(("tm%d" % j, self.chance(0.25), [self.cb_arg() for _ in range(self.ri(0, 3))], self.cb_ret()))
        name = self.fresh("Tr")
        if self.p["trait_method_disable"]:
            # the vtable Rust compiles is positional and has one slot per declared method whatever the backends disable
            for mname, _, _, _ in meths[:-1] if len(meths) > 1 and self.chance(0.7) else meths:
                if self.chance(self.p["trait_method_disable"]):
                    self.trait_mattrs[(name, mname)] = "#[diplomat::attr(%s, disable)]" % self.pick(["c", "*", "any(c, kotlin)", "not(cpp)", "all(c, not(js))"])
        return ("tr", name, meths)

    def param_type(self, ctx):
        p = self.p
        if p["traits"] and not ctx.get("has_tr") and self.chance(p["trait_prob"]):
            ctx["has_tr"] = True
            if self.traits and self.chance(0.3):
                return self.pick(self.traits)       # one trait consumed by several methods
            t = self.gen_trait()
            self.traits.append(t)
            return t
        if p.get("opt_strs_bias") and p["strs"] and self.chance(0.25):
            return ("opt", ("strs", self.pick(["ustr", "u16"])), "std")      # optional arrays of strings (present-but-empty must stay present)
        if p.get("utf8_bias") and p["utf8"] and self.chance(0.35):
            return ("str", "utf8", None, "std")       # several validated strings per method (each must be checked on its own)
        if p.get("cb_bias") and p["callbacks"] and (not ctx.get("has_cb") or (p.get("multi_cb") and ctx.get("has_cb") == 1)) and self.chance(p["cb_bias"]):
            ctx["has_cb"] = int(ctx.get("has_cb") or 0) + 1                   # a callback early in the list: later parameters are converted / validated after it
            return ("cb", [self.cb_arg() for _ in range(self.ri(0, 3))], self.cb_ret(), self.chance(0.4))
        c = self.r.random()
        if c < 0.30:
            return ("prim", self.pick(self.prims()))
        if c < 0.37 and self.enums:
            return ("enum", self.pick(self.enums).name)
        if c < 0.47 and self.structs:
            return ("struct", self.pick(self.structs).name)
        if c < 0.55 and self.opaques:
            mut = self.chance(0.25)
            return ("oref", self.pick(self.opaques).name, mut, None, self.chance(0.3) and (not mut or p["opt_mut_oref"]))
        if c < 0.65:
            mut = p["mut_slices"] and self.chance(0.3)
            prims = SLICE_PRIMS if p["byte_slices"] else SLICE_PRIMS[:-1]
            return ("slice", self.pick(prims), mut, None, "std")
        if c < 0.70 and p["owned_slices"]:
            return ("oslice", self.pick(SLICE_PRIMS[:-1]))
        if c < 0.78:
            encs = ["ustr"] + (["u16"] if p["utf16"] else []) + (["utf8"] if p["utf8"] else [])
            return ("str", self.pick(encs), None, "std")
        if c < 0.81 and p["owned_slices"]:
            encs = ["ustr"] + (["u16"] if p["utf16"] else []) + (["utf8"] if p["utf8"] else [])
            return ("ostr", self.pick(encs))
        if c < 0.84 and p["strs"]:
            return ("strs", self.pick(["ustr", "u16"] + (["utf8"] if p["strs_utf8"] else [])))
        if c < 0.93 and (p["option"] or p["opt_slices"]):
            inner_c = self.r.random()
            if not p["option"]:
                inner_c = 0.8
            if inner_c < 0.4:
                inner = ("prim", self.pick(self.prims()))
            elif inner_c < 0.55 and self.enums:
                inner = ("enum", self.pick(self.enums).name)
            elif inner_c < 0.75 and [s for s in self.structs if not s.lifetimes]:
                inner = ("struct", self.pick([s for s in self.structs if not s.lifetimes]).name)
            elif p["opt_owned"] and p["owned_slices"] and inner_c < 0.82:
                inner = self.pick([("oslice", self.pick(SLICE_PRIMS[:-1])), ("ostr", self.pick(["ustr", "utf8", "u16"]))])
            elif p["opt_slices"] and inner_c < 0.9 and (p["option"] or True):
                inner = self.pick([("slice", self.pick(SLICE_PRIMS[:-1]), False, None, "std"), ("str", "ustr", None, "std")]
                                  + ([("str", "utf8", None, "std")] if p["utf8"] else [])
                                  + ([("strs", self.pick(["ustr", "u16"]))] if (p["strs"] and p["opt_strs"]) else []))
            elif p["option"]:
                inner = ("prim", self.pick(self.prims()))
            else:
                return ("prim", self.pick(self.prims()))
            sp = "dip" if (p["dip_spellings"] and inner[0] in ("prim", "enum", "struct") and self.chance(0.4)) else "std"
            return ("opt", inner, sp)
        if p["callbacks"] and (not ctx.get("has_cb") or (p.get("multi_cb") and ctx.get("has_cb") == 1 and self.chance(0.7))) and self.chance(0.6):
            ctx["has_cb"] = int(ctx.get("has_cb") or 0) + 1          # (a second callback per method where the profile allows it)
            args = [self.cb_arg() for _ in range(self.ri(0, 3))]
            return ("cb", args, self.cb_ret(), self.chance(0.4))
        return ("prim", self.pick(self.prims()))

    def simple_ret_payload(self, allow_box=True, allow_unit=False):
        c = self.r.random()
        if allow_unit and c < 0.2:
            return ("unit",)
        if c < 0.45:
            return ("prim", self.pick(self.prims()))
        if c < 0.55 and self.enums:
            return ("enum", self.pick(self.enums).name)
        if c < 0.70 and [s for s in self.structs if not s.lifetimes]:
            return ("struct", self.pick([s for s in self.structs if not s.lifetimes]).name)
        if c < 0.78 and [s for s in self.outstructs if not s.lifetimes] and self.p["out_structs"]:
            return ("struct", self.pick([s for s in self.outstructs if not s.lifetimes]).name)
        if allow_box and self.opaques:
            return ("obox", self.pick(self.opaques).name, False)
        return ("prim", self.pick(self.prims()))

    def ret_type(self, owner, self_kind, params):
        c = self.r.random()
        p = self.p
        if c < 0.08:
            return ("unit",)
        if c < 0.30:
            return self.simple_ret_payload()
        if c < 0.34 and p["ordering"]:
            return ("ordering",)
        if c < 0.42 and self.opaques:
            return ("obox", self.pick(self.opaques).name, self.chance(0.5))
        if c < 0.56 and self.chance(0.12):
            return ("opt", ("unit",), "std")          # Option<()>: "did it work" returns; not subject to the `option` feature
        if c < 0.56 and p["option"]:
            inner = self.simple_ret_payload(allow_box=False)
            if inner[0] == "struct" and self.find_struct(inner[1]).out and False:
                pass
            sp = "dip" if (p["dip_spellings"] and self.chance(0.35)) else "std"
            return ("opt", inner, sp)
        if c < 0.80:
            ok = self.simple_ret_payload(allow_unit=True)
            err = self.simple_ret_payload(allow_unit=True)
            if not p["result_prim_err"] and err[0] == "prim":
                err = ("unit",)
            return ("result", ok, err, "std")
        if p["borrowed_returns"]:
            return ("borrow?",)
        return self.simple_ret_payload()

    def find_struct(self, name):
        for s in self.structs + self.outstructs:
            if s.name == name:
                return s
        raise KeyError(name)

    def gen_method(self, owner, idx):
        p = self.p
        ctx = {}
        if owner.kind == "opaque":
            sk = self.pick([None, ("ref", None), ("ref", None), ("mut", None) if p["mut_self"] else ("ref", None)])
        elif owner.kind in ("struct", "enum"):
            sk = self.pick([None, ("val",)])
            if owner.kind == "struct" and owner.lifetimes:
                sk = None
        else:
            sk = None
        nparams = self.ri(0, p["max_params"])
        params = []
        names = set()
        for i in range(nparams):
            t = self.param_type(ctx)
            if t[0] == "struct" and self.find_struct(t[1]).lifetimes:
                pass
            nm = "p%d" % i
            if p["keyword_params"] and self.chance(0.3 if (t[0] == "str" and t[1] == "utf8") else 0.08):
                kw = self.pick(KEYWORD_PARAMS)
                # two parameters of one method never differ only by underscores: backends escape `default` as `default_` and re-case
                # `new_` to `new`, so such siblings collide in the generated code (recorded as a C09 finding through a directed probe)
                if kw.replace("_", "") not in {n.replace("_", "") for n in names}:
                    nm = kw
            names.add(nm)
            params.append((nm, t))
        ret = self.ret_type(owner, sk, params)
        lifetimes = []
        def has_lt_struct(t):
            if t[0] == "struct":
                return bool(self.find_struct(t[1]).lifetimes)
            if t[0] == "opt":
                return has_lt_struct(t[1])
            return False
        needs_a = any(has_lt_struct(t) for _, t in params)
        if ret == ("borrow?",):
            ret, sk, params, lifetimes = self.make_borrowing(owner, sk, params)
        if needs_a and not lifetimes:
            lifetimes = ["a"]
        # trailing write
        if p["write"] and p["write_prob"] > 0.5 and ret[0] not in ("unit", "result", "opt"):
            ret = self.pick([("unit",), ("unit",), ("result", ("unit",), self.simple_ret_payload(allow_unit=True), "std"), ("opt", ("unit",), "std")])
        if p["write"] and self.chance(p["write_prob"] if ret[0] != "opt" else max(0.5, p["write_prob"])) and ret[0] in ("unit", "result", "opt") and (ret[0] == "unit" or ret[1] == ("unit",)):
            params.append(("w", ("write",)))
        if p.get("opt_named_lt") and self.chance(p["opt_named_lt"]):
            # an optional slice / string parameter under a *named* lifetime that nothing else (or only another slice parameter) uses
            # (seed C15-h: the borrow visitor's idea of "used lifetimes" and of what may carry one disagreed for exactly this shape)
            cand = [k for k, (pn, pt) in enumerate(params) if pt[0] == "opt" and pt[2] == "std" and pt[1][0] in ("slice", "str") and pt[1][-2 if pt[1][0] == "slice" else 2] is None]
            if cand:
                k = self.pick(cand)
                pn, pt = params[k]
                inner = pt[1]
                inner = (inner[0], inner[1], inner[2], "o", inner[4]) if inner[0] == "slice" else (inner[0], inner[1], "o", inner[3])
                params[k] = (pn, ("opt", inner, pt[2]))
                if self.chance(0.35):
                    plain = [j for j, (qn, qt) in enumerate(params) if qt[0] == "slice" and qt[3] is None and not qt[2]]
                    if plain:
                        j = self.pick(plain)
                        qn, qt = params[j]
                        params[j] = (qn, (qt[0], qt[1], qt[2], "o", qt[4]))
                lifetimes = list(lifetimes) + ["o"]
        own_opt = False
        if owner.kind in ("struct", "enum") and not owner.lifetimes and p["option"] and p["self_spelling"] and len(params) < p["max_params"] + 1 and self.chance(0.15):
            # an optional value of the owner's own type (`o: Option<Self>`)
            at = len(params) - (1 if params and params[-1][1] == ("write",) else 0)
            params.insert(at, ("po", ("opt", (owner.kind if owner.kind == "enum" else "struct", owner.name), "std")))
            own_opt = True
        m = Method("m%d" % idx, sk, params, ret, lifetimes=lifetimes)
        if self.p["dip_params"]:
            # slice / string parameters written in their Diplomat spelling (DiplomatSlice<T>, DiplomatSliceMut<T>, DiplomatOwnedSlice<T>,
            # Diplomat[Owned]{Str,Str16,Utf8Str}Slice, DiplomatSlice<DiplomatStrSlice>): the macro passes them through unconverted and the
            # body converts them itself; every backend must declare them exactly like the std spelling
            m.dip_params = {pn for pn, pt in params if pt[0] in ("slice", "str", "oslice", "ostr", "strs") and (pt[0] not in ("slice", "str") or pt[-1] == "std")
                            and self.chance(self.p["dip_params"])}
        # spell the owner's own type as `Self` in this signature (Box<Self>, &Self, Self by value ...): a separate AST node (SelfType)
        m.self_spelling = bool(self.p["self_spelling"] and not owner.lifetimes and self.chance(0.7 if own_opt else 0.3))
        m.owner = owner
        return m

    def make_borrowing(self, owner, sk, params):
        """Return type borrows from an input carrying lifetime 'a; the body returns that input."""
        choices = []
        if owner.kind == "opaque":
            choices.append("self_op")
        choices += ["param_op", "param_slice", "param_str", "static_str", "static_slice", "result_ref", "result_ref"]
        if self.p.get("opt_borrowed_params"):
            choices += ["opt_param_slice"] + (["opt_param_struct"] if self.p["option"] else [])
        ch = self.pick(choices)
        lifetimes = ["a"]
        if ch == "self_op":
            sk = ("ref", "a")
            ret = ("oref", owner.name, False, "a", self.chance(0.4))
        elif ch == "param_op" and self.opaques:
            op = self.pick(self.opaques).name
            mut = self.chance(0.2)
            params = params + [("bo", ("oref", op, mut, "a", False))]
            ret = ("oref", op, mut, "a", self.chance(0.4))
        elif ch == "result_ref" and self.opaques:
            # borrowed opaques inside Result arms: Result<&'a Op, &'a Op>, Result<(), &'a Op>, Result<&'a Op, E>
            op = self.pick(self.opaques).name
            params = params + [("bo", ("oref", op, False, "a", False))]
            ref = ("oref", op, False, "a", False)
            other = self.pick([("unit",), ("prim", self.pick(self.prims())), ref])
            if other[0] == "prim" and not self.p["result_prim_err"]:
                other = ("unit",)
            ret = ("result", ref, other, "std") if self.chance(0.5) else ("result", other, ref, "std")
        elif ch == "opt_param_slice":
            # the returned reference may borrow from an *optional* slice / string argument
            inner = self.pick([("slice", self.pick(SLICE_PRIMS[:-1]), False, "a", "std"), ("str", "ustr", "a", "std")])
            params = params + [("obs", ("opt", inner, "std"))]
            ret = ("oref", self.pick(self.opaques).name, False, "a", True) if self.opaques else ("prim", "u8")
            if not self.opaques:
                lifetimes = []
        elif ch == "opt_param_struct" and [s for s in self.structs if s.lifetimes] and self.opaques:
            st = self.pick([s for s in self.structs if s.lifetimes])
            params = params + [("obst", ("opt", ("struct", st.name), "std"))]
            ret = ("oref", self.pick(self.opaques).name, False, "a", True)
        elif ch == "param_slice":
            pr = self.pick(SLICE_PRIMS[:-1])
            params = params + [("bs", ("slice", pr, False, "a", "std"))]
            ret = ("slice", pr, False, "a", self.pick(["std", "dip"]))
        elif ch == "param_str":
            enc = self.pick(["ustr"] + (["u16"] if self.p["utf16"] else []) + (["utf8"] if self.p["utf8"] else []))
            params = params + [("bs", ("str", enc, "a", "std"))]
            ret = ("str", enc, "a", self.pick(["std", "dip"]))
            if self.p["option"] and self.chance(0.3):
                ret = ("opt", ret, "std")
        elif ch == "static_str" and self.p["static_slices"]:
            lifetimes = []
            ret = ("str", self.pick(["utf8", "ustr"]), "static", "std")
        elif ch == "static_slice" and self.p["static_slices"]:
            lifetimes = []
            ret = ("slice", self.pick(["u8", "u16", "i32", "f64"]), False, "static", "std")
        else:
            lifetimes = []
            ret = ("prim", "u8")
        return ret, sk, params, lifetimes

    def program(self):
        prog = Program(self.name)
        prog.trait_mattrs = self.trait_mattrs
        mod = Module("ffi")
        prog.modules.append(mod)
        for _ in range(self.ri(*self.n_enums)):
            self.gen_enum()
        for _ in range(self.ri(*self.n_opaques)):
            self.opaques.append(Opaque(self.fresh("Op")))
        for _ in range(self.ri(*self.n_structs)):
            self.gen_struct()
        if self.p["out_structs"] and self.opaques:
            for _ in range(self.ri(0, 2)):
                self.gen_struct(out=True)
        items = self.enums + self.structs + self.outstructs + self.opaques
        # methods
        for t in items:
            if t.kind == "opaque":
                n = self.ri(*self.n_methods)
            elif t.kind == "struct" and self.p["struct_methods"] and not t.lifetimes:
                n = self.ri(0, 3)
            elif t.kind == "enum" and self.p["enum_methods"]:
                n = self.ri(0, 2)
            else:
                n = 0
            for i in range(n):
                t.methods.append(self.gen_method(t, i))
        # every opaque needs a way to be created
        for op in self.opaques:
            m = Method("make", None, [("seed", ("prim", "u32"))], ("obox", op.name, False))
            m.self_spelling = bool(self.p["self_spelling"] and not op.lifetimes and self.chance(0.5))
            m.owner = op
            op.methods.insert(0, m)
        # opaques that keep a `'static` callback beyond the call that received it (released when the holder is destroyed)
        if self.p["callbacks"] and self.p["held_callbacks"]:
            for _ in range(self.ri(1, 2)):
                h = Opaque(self.fresh("Hold"))
                h.holder = ("cb", [self.cb_arg() for _ in range(self.ri(0, 3))], self.cb_ret(), self.chance(0.4), "static")
                mk = Method("make", None, [("seed", ("prim", "u32")), ("f", h.holder)], ("obox", h.name, False))
                inv = Method("invoke", ("mut" if h.holder[3] else "ref", None), [], ("unit",))
                inv.special = "invoke"
                for m in (mk, inv):
                    m.owner = h
                    h.methods.append(m)
                items.append(h)
        order = list(items)
        self.r.shuffle(order)
        mod.items = order
        # the methods of a type spread over two or three impl blocks
        rsplit = random_mod.Random(self.r.random())      # a private stream: earlier seeds keep generating the programs they used to
        for t in items:
            if len(t.methods) >= 2 and rsplit.random() < self.p["impl_split"]:
                t.impl_cuts = sorted(rsplit.sample(range(1, len(t.methods)), min(len(t.methods) - 1, rsplit.choice([1, 1, 2]))))
        return prog
