fn main() {}
