//! C16: slice / string views round-trip; diplomat_is_str is exact.
use crate::{stat, utf8, viol, Rng};
use diplomat_runtime::*;
use std::mem::{align_of, size_of};

/// What the documentation says a view is on the wire: {pointer, length}.
#[repr(C)]
#[derive(Clone, Copy)]
struct Raw<T> {
    ptr: *mut T,
    len: usize,
}

unsafe fn raw_of<V, T>(v: &V) -> Raw<T> {
    assert_eq!(size_of::<V>(), size_of::<Raw<T>>());
    assert_eq!(align_of::<V>(), align_of::<Raw<T>>());
    std::ptr::read(v as *const V as *const Raw<T>)
}
unsafe fn from_raw<V, T>(r: Raw<T>) -> V {
    assert_eq!(size_of::<V>(), size_of::<Raw<T>>());
    std::ptr::read(&r as *const Raw<T> as *const V)
}

pub trait Elem: Copy + 'static {
    const NAME: &'static str;
    fn make(i: u64) -> Self;
    fn bits(self) -> u64;
}
macro_rules! int_elem {
    ($($t:ty),*) => {$(
        impl Elem for $t {
            const NAME: &'static str = stringify!($t);
            fn make(i: u64) -> Self { (i.wrapping_mul(0x9E3779B97F4A7C15) >> 7) as $t }
            fn bits(self) -> u64 { self as u64 }
        }
    )*};
}
int_elem!(u8, i8, u16, i16, u32, i32, u64, i64, usize, isize);
impl Elem for f32 {
    const NAME: &'static str = "f32";
    fn make(i: u64) -> Self {
        f32::from_bits((i.wrapping_mul(0x9E3779B97F4A7C15) >> 13) as u32)
    }
    fn bits(self) -> u64 {
        self.to_bits() as u64
    }
}
impl Elem for f64 {
    const NAME: &'static str = "f64";
    fn make(i: u64) -> Self {
        f64::from_bits(i.wrapping_mul(0x9E3779B97F4A7C15))
    }
    fn bits(self) -> u64 {
        self.to_bits()
    }
}
impl Elem for bool {
    const NAME: &'static str = "bool";
    fn make(i: u64) -> Self {
        (i.wrapping_mul(0x9E3779B97F4A7C15) >> 17) & 1 == 1
    }
    fn bits(self) -> u64 {
        self as u64
    }
}

fn same<T: Elem>(a: &[T], b: &[T]) -> bool {
    a.len() == b.len() && a.iter().zip(b.iter()).all(|(x, y)| x.bits() == y.bits())
}

/// Views of sub-ranges of one live buffer, the empty ones `&buf[k..k]` included: a view names a *place*, so pointer and length
/// must come back unchanged for every range (a foreign caller, or a tokenizer on the Rust side, may rely on where an empty range sits).
fn subranges_t<T: Elem>(maxlen: usize, checks: &mut u64) {
    let t = T::NAME;
    let n = maxlen.min(9);
    let mut buf: Vec<T> = (0..n as u64).map(|i| T::make(i * 17 + 3)).collect();
    for i in 0..=n {
        for j in i..=n {
            {
                let s: &[T] = &buf[i..j];
                let (p, l) = (s.as_ptr(), s.len());
                let d: DiplomatSlice<T> = s.into();
                let r: Raw<T> = unsafe { raw_of(&d) };
                if r.len != l || r.ptr as *const T != p {
                    viol(format!("C16 DiplomatSlice<{t}> from &buf[{i}..{j}]: wire (ptr,len)=({:?},{}) expected ({:?},{})", r.ptr, r.len, p, l));
                }
                let dr: &[T] = &*d;
                if dr.len() != l || dr.as_ptr() != p {
                    viol(format!("C16 DiplomatSlice<{t}> deref of &buf[{i}..{j}]: ({:?},{}) expected ({:?},{})", dr.as_ptr(), dr.len(), p, l));
                }
                let back: &[T] = d.into();
                if back.len() != l || back.as_ptr() != p {
                    viol(format!("C16 DiplomatSlice<{t}> -> &[T] of &buf[{i}..{j}]: ({:?},{}) expected ({:?},{})", back.as_ptr(), back.len(), p, l));
                }
                *checks += 3;
            }
            {
                let s: &mut [T] = &mut buf[i..j];
                let (p, l) = (s.as_mut_ptr(), s.len());
                let d: DiplomatSliceMut<T> = s.into();
                let r: Raw<T> = unsafe { raw_of(&d) };
                if r.len != l || r.ptr != p {
                    viol(format!("C16 DiplomatSliceMut<{t}> from &mut buf[{i}..{j}]: wire (ptr,len) wrong"));
                }
                let back: &mut [T] = d.into();
                if back.len() != l || back.as_mut_ptr() != p {
                    viol(format!("C16 DiplomatSliceMut<{t}> -> &mut [T] of &mut buf[{i}..{j}]: ({:?},{}) expected ({:?},{})", back.as_mut_ptr(), back.len(), p, l));
                }
                *checks += 2;
            }
        }
    }
}

fn roundtrip_t<T: Elem>(maxlen: usize, checks: &mut u64) {
    subranges_t::<T>(maxlen, checks);
    let t = T::NAME;
    for len in 0..=maxlen {
        let mut v: Vec<T> = (0..len as u64).map(|i| T::make(i + len as u64 * 131)).collect();
        let orig: Vec<T> = v.clone();
        // ---- borrowed ----
        {
            let s: &[T] = &v[..];
            let d: DiplomatSlice<T> = s.into();
            let r: Raw<T> = unsafe { raw_of(&d) };
            if r.len != len || (len > 0 && r.ptr as *const T != s.as_ptr()) {
                viol(format!("C16 DiplomatSlice<{t}> from &[T] len={len}: wire (ptr,len)=({:?},{}) expected ({:?},{})", r.ptr, r.len, s.as_ptr(), len));
            }
            let back: &[T] = d.into();
            if back.len() != len || (len > 0 && back.as_ptr() != s.as_ptr()) || !same(back, &orig) {
                viol(format!("C16 DiplomatSlice<{t}> -> &[T] len={len}: pointer/length/contents changed"));
            }
            if !same(&*d, &orig) {
                viol(format!("C16 DiplomatSlice<{t}> deref len={len}: contents differ"));
            }
            let d2 = d.clone();
            if !same(&d2, &orig) {
                viol(format!("C16 DiplomatSlice<{t}> clone len={len}: contents differ"));
            }
            *checks += 4;
        }
        // ---- mutable ----
        {
            let p0 = v.as_mut_ptr();
            let mut d: DiplomatSliceMut<T> = (&mut v[..]).into();
            let r: Raw<T> = unsafe { raw_of(&d) };
            if r.len != len || (len > 0 && r.ptr != p0) {
                viol(format!("C16 DiplomatSliceMut<{t}> from &mut [T] len={len}: wire (ptr,len) wrong"));
            }
            if !same(&*d, &orig) {
                viol(format!("C16 DiplomatSliceMut<{t}> deref len={len}: contents differ"));
            }
            for i in 0..len {
                if i % 2 == 0 {
                    d[i] = T::make(1000 + i as u64);
                }
            }
            let back: &mut [T] = d.into();
            if back.len() != len || (len > 0 && back.as_mut_ptr() != p0) {
                viol(format!("C16 DiplomatSliceMut<{t}> -> &mut [T] len={len}: pointer/length changed"));
            }
            for i in 0..len {
                if i % 2 == 1 {
                    back[i] = T::make(2000 + i as u64);
                }
            }
            for i in 0..len {
                let want = if i % 2 == 0 { T::make(1000 + i as u64) } else { T::make(2000 + i as u64) };
                if v[i].bits() != want.bits() {
                    viol(format!("C16 DiplomatSliceMut<{t}> len={len}: write at {i} not visible in the source slice"));
                }
            }
            *checks += 4;
        }
        // ---- owned ----
        {
            let b: Box<[T]> = orig.clone().into_boxed_slice();
            let p0 = b.as_ptr();
            let mut o: DiplomatOwnedSlice<T> = b.into();
            let r: Raw<T> = unsafe { raw_of(&o) };
            if r.len != len || (len > 0 && r.ptr as *const T != p0) {
                viol(format!("C16 DiplomatOwnedSlice<{t}> from Box<[T]> len={len}: wire (ptr,len) wrong"));
            }
            if !same(&*o, &orig) {
                viol(format!("C16 DiplomatOwnedSlice<{t}> deref len={len}: contents differ"));
            }
            if len > 0 {
                o[len - 1] = T::make(77);
            }
            let back: Box<[T]> = o.into();
            if back.len() != len || (len > 0 && back.as_ptr() != p0) {
                viol(format!("C16 DiplomatOwnedSlice<{t}> -> Box<[T]> len={len}: pointer/length changed"));
            }
            for i in 0..len {
                let want = if i == len - 1 { T::make(77) } else { orig[i] };
                if back[i].bits() != want.bits() {
                    viol(format!("C16 DiplomatOwnedSlice<{t}> -> Box<[T]> len={len}: element {i} differs"));
                }
            }
            drop(back);
            // dropped without conversion
            let o2: DiplomatOwnedSlice<T> = orig.clone().into_boxed_slice().into();
            drop(o2);
            *checks += 4;
        }
    }
    // ---- NULL + 0 views, as C callers send them ----
    {
        let null = Raw::<T> { ptr: std::ptr::null_mut(), len: 0 };
        let d: DiplomatSlice<T> = unsafe { from_raw(null) };
        let s: &[T] = d.into();
        if !s.is_empty() {
            viol(format!("C16 DiplomatSlice<{t}> NULL+0 -> &[T] not empty"));
        }
        if !(&*d).is_empty() {
            viol(format!("C16 DiplomatSlice<{t}> NULL+0 deref not empty"));
        }
        let mut m: DiplomatSliceMut<T> = unsafe { from_raw(null) };
        if !(&*m).is_empty() || !(&mut *m).is_empty() {
            viol(format!("C16 DiplomatSliceMut<{t}> NULL+0 deref not empty"));
        }
        let ms: &mut [T] = m.into();
        if !ms.is_empty() {
            viol(format!("C16 DiplomatSliceMut<{t}> NULL+0 -> &mut [T] not empty"));
        }
        let mut o: DiplomatOwnedSlice<T> = unsafe { from_raw(null) };
        if !(&*o).is_empty() || !(&mut *o).is_empty() {
            viol(format!("C16 DiplomatOwnedSlice<{t}> NULL+0 deref not empty"));
        }
        let b: Box<[T]> = o.into();
        if !b.is_empty() {
            viol(format!("C16 DiplomatOwnedSlice<{t}> NULL+0 -> Box<[T]> not empty"));
        }
        drop(b);
        let o2: DiplomatOwnedSlice<T> = unsafe { from_raw(null) };
        drop(o2);
        *checks += 7;
    }
}

fn str_samples(maxlen: usize) -> Vec<String> {
    let alphabet = ["a", "é", "€", "😀", "\u{0}", "Z", "\u{7ff}", "\u{ffff}", "\u{10ffff}"];
    let mut out = vec![String::new()];
    let mut rng = Rng(42);
    for n in 1..=maxlen {
        let mut s = String::new();
        for _ in 0..n {
            s.push_str(alphabet[rng.below(alphabet.len() as u64) as usize]);
        }
        out.push(s);
    }
    out
}

fn roundtrip_str(maxlen: usize, checks: &mut u64) {
    // sub-ranges of one live string at every char boundary, the empty ones included
    let whole = "a\u{e9}\u{20ac}\u{1f600}z";
    let bounds: Vec<usize> = (0..=whole.len()).filter(|&k| whole.is_char_boundary(k)).collect();
    for &i in &bounds {
        for &j in bounds.iter().filter(|&&j| j >= i) {
            let st: &str = &whole[i..j];
            let d: DiplomatUtf8StrSlice = st.into();
            let r: Raw<u8> = unsafe { raw_of(&d) };
            let dr: &str = &*d;
            let back: &str = d.into();
            if r.len != st.len() || r.ptr as *const u8 != st.as_ptr() || dr.as_ptr() != st.as_ptr() || back.as_ptr() != st.as_ptr() || back.len() != st.len() {
                viol(format!("C16 DiplomatUtf8StrSlice of whole[{i}..{j}]: wire ({:?},{}) deref {:?} back ({:?},{}) expected ({:?},{})", r.ptr, r.len, dr.as_ptr(), back.as_ptr(), back.len(), st.as_ptr(), st.len()));
            }
            *checks += 1;
        }
    }
    for s in str_samples(maxlen) {
        let st: &str = &s;
        let d: DiplomatUtf8StrSlice = st.into();
        let r: Raw<u8> = unsafe { raw_of(&d) };
        if r.len != st.len() || (!st.is_empty() && r.ptr as *const u8 != st.as_ptr()) {
            viol(format!("C16 DiplomatUtf8StrSlice from &str {:?}: wire (ptr,len) wrong", st));
        }
        if &*d != st {
            viol(format!("C16 DiplomatUtf8StrSlice deref {:?}: contents differ", st));
        }
        let back: &str = d.into();
        if back != st || (!st.is_empty() && back.as_ptr() != st.as_ptr()) {
            viol(format!("C16 DiplomatUtf8StrSlice -> &str {:?}: changed", st));
        }
        // owned
        let b: Box<str> = s.clone().into_boxed_str();
        let p0 = b.as_ptr();
        let o: DiplomatOwnedUTF8StrSlice = b.into();
        let r: Raw<u8> = unsafe { raw_of(&o) };
        if r.len != st.len() || (!st.is_empty() && r.ptr as *const u8 != p0) {
            viol(format!("C16 DiplomatOwnedUTF8StrSlice from Box<str> {:?}: wire (ptr,len) wrong", st));
        }
        if &*o != st {
            viol(format!("C16 DiplomatOwnedUTF8StrSlice deref {:?}: contents differ", st));
        }
        let back: Box<str> = o.into();
        if &*back != st || (!st.is_empty() && back.as_ptr() != p0) {
            viol(format!("C16 DiplomatOwnedUTF8StrSlice -> Box<str> {:?}: changed", st));
        }
        let o2: DiplomatOwnedUTF8StrSlice = s.clone().into_boxed_str().into();
        drop(o2);
        // utf16 / unvalidated aliases are the generic types; exercised with u16/u8 above.
        let w: Vec<u16> = st.encode_utf16().collect();
        let d16: DiplomatStr16Slice = (&w[..]).into();
        let b16: &[u16] = d16.into();
        if b16 != &w[..] {
            viol(format!("C16 DiplomatStr16Slice {:?}: changed", st));
        }
        *checks += 8;
    }
    // NULL + 0
    let null = Raw::<u8> { ptr: std::ptr::null_mut(), len: 0 };
    let d: DiplomatUtf8StrSlice = unsafe { from_raw(null) };
    let s: &str = d.into();
    if !s.is_empty() || !(&*d).is_empty() {
        viol("C16 DiplomatUtf8StrSlice NULL+0 not the empty string".into());
    }
    let o: DiplomatOwnedUTF8StrSlice = unsafe { from_raw(null) };
    if !(&*o).is_empty() {
        viol("C16 DiplomatOwnedUTF8StrSlice NULL+0 deref not empty".into());
    }
    let b: Box<str> = o.into();
    if !b.is_empty() {
        viol("C16 DiplomatOwnedUTF8StrSlice NULL+0 -> Box<str> not empty".into());
    }
    drop(b);
    let o2: DiplomatOwnedUTF8StrSlice = unsafe { from_raw(null) };
    drop(o2);
    *checks += 4;
}

pub fn roundtrip(maxlen: usize) {
    let mut checks = 0u64;
    roundtrip_t::<u8>(maxlen, &mut checks);
    roundtrip_t::<i8>(maxlen, &mut checks);
    roundtrip_t::<u16>(maxlen, &mut checks);
    roundtrip_t::<i16>(maxlen, &mut checks);
    roundtrip_t::<u32>(maxlen, &mut checks);
    roundtrip_t::<i32>(maxlen, &mut checks);
    roundtrip_t::<u64>(maxlen, &mut checks);
    roundtrip_t::<i64>(maxlen, &mut checks);
    roundtrip_t::<usize>(maxlen, &mut checks);
    roundtrip_t::<isize>(maxlen, &mut checks);
    roundtrip_t::<f32>(maxlen, &mut checks);
    roundtrip_t::<f64>(maxlen, &mut checks);
    roundtrip_t::<bool>(maxlen, &mut checks);
    roundtrip_str(maxlen, &mut checks);
    stat("roundtrip_checks", checks);
    stat("elem_types", 13);
    stat("maxlen", maxlen as u64);
}

// ------------------------------------------------------------------ UTF-8

#[inline]
fn check_one(bytes: &[u8], n: &mut u64, nvalid: &mut u64) {
    let got = unsafe { diplomat_is_str(bytes.as_ptr(), bytes.len()) };
    let want = utf8::is_utf8(bytes);
    *n += 1;
    if want {
        *nvalid += 1;
    }
    if got != want {
        viol(format!("C16 diplomat_is_str({:02x?}) = {} but RFC 3629 says {}", bytes, got, want));
    }
}

/// all byte strings of length 0..=maxlen whose first byte b satisfies b % nshards == shard
pub fn utf8_exhaustive(maxlen: usize, shard: u64, nshards: u64) {
    let mut n = 0u64;
    let mut nv = 0u64;
    if shard == 0 {
        check_one(&[], &mut n, &mut nv);
        // what C and C++ callers send for an empty string: NULL + 0
        let got = unsafe { diplomat_is_str(std::ptr::null(), 0) };
        stat("utf8_null_probe", 1);
        if !got {
            viol("C16 diplomat_is_str(NULL, 0) = false, the empty string is valid UTF-8".into());
        }
    }
    for b0 in 0..=255u8 {
        if (b0 as u64) % nshards != shard {
            continue;
        }
        if maxlen >= 1 {
            check_one(&[b0], &mut n, &mut nv);
        }
        if maxlen >= 2 {
            for b1 in 0..=255u8 {
                check_one(&[b0, b1], &mut n, &mut nv);
                if maxlen >= 3 {
                    for b2 in 0..=255u8 {
                        check_one(&[b0, b1, b2], &mut n, &mut nv);
                    }
                }
            }
        }
    }
    stat("utf8_strings", n);
    stat("utf8_valid", nv);
}

/// all 4-byte strings with lead byte F0..F7; `stride` > 1 samples the last byte (Miri)
pub fn utf8_lead4(shard: u64, nshards: u64, stride: u64) {
    let mut n = 0u64;
    let mut nv = 0u64;
    let mut idx = 0u64;
    for b0 in 0xF0..=0xF7u8 {
        for b1 in 0..=255u8 {
            idx += 1;
            if idx % nshards != shard {
                continue;
            }
            for b2 in 0..=255u8 {
                let mut b3 = 0u64;
                while b3 < 256 {
                    check_one(&[b0, b1, b2, b3 as u8], &mut n, &mut nv);
                    b3 += stride;
                }
            }
        }
    }
    stat("utf8_strings", n);
    stat("utf8_valid", nv);
}

const PIECES: &[&[u8]] = &[
    b"a", b"\x00", b"\x7f", b"\xc2\x80", b"\xdf\xbf", b"\xe0\xa0\x80", b"\xe1\x80\x80", b"\xec\xbf\xbf",
    b"\xed\x80\x80", b"\xed\x9f\xbf", b"\xee\x80\x80", b"\xef\xbf\xbf", b"\xf0\x90\x80\x80", b"\xf1\x80\x80\x80",
    b"\xf3\xbf\xbf\xbf", b"\xf4\x80\x80\x80", b"\xf4\x8f\xbf\xbf",
    // near-valid
    b"\xc0\x80", b"\xc1\xbf", b"\xe0\x80\x80", b"\xe0\x9f\xbf", b"\xed\xa0\x80", b"\xed\xbf\xbf", b"\xf0\x80\x80\x80",
    b"\xf0\x8f\xbf\xbf", b"\xf4\x90\x80\x80", b"\xf5\x80\x80\x80", b"\xf8\x88\x80\x80\x80", b"\xff", b"\xfe", b"\x80", b"\xbf",
    b"\xc2", b"\xe1\x80", b"\xf1\x80\x80", b"\xf1\x80", b"\xe0\xa0", b"\xf4\x8f\xbf",
];

pub fn utf8_random(seed: u64, count: u64) {
    let mut rng = Rng(seed ^ 0xC16);
    let mut n = 0u64;
    let mut nv = 0u64;
    let mut buf: Vec<u8> = Vec::new();
    for _ in 0..count {
        buf.clear();
        let pieces = 1 + rng.below(12);
        for _ in 0..pieces {
            let p = if rng.chance(3, 4) {
                PIECES[rng.below(17) as usize] // valid pieces
            } else {
                PIECES[rng.below(PIECES.len() as u64) as usize]
            };
            buf.extend_from_slice(p);
        }
        match rng.below(6) {
            0 => {
                let i = rng.below(buf.len() as u64) as usize;
                buf[i] = rng.next() as u8;
            }
            1 => {
                let i = rng.below(buf.len() as u64) as usize;
                buf[i] ^= 1 << rng.below(8);
            }
            2 => {
                let k = rng.below(buf.len() as u64) as usize;
                buf.truncate(k.max(1));
            }
            3 => {
                let i = rng.below(buf.len() as u64) as usize;
                buf.remove(i);
                if buf.is_empty() {
                    buf.push(0x80);
                }
            }
            _ => {}
        }
        // sub-slices too: the predicate must not look outside [ptr, ptr+len)
        let a = rng.below(buf.len() as u64 + 1) as usize;
        let b = a + rng.below((buf.len() - a) as u64 + 1) as usize;
        check_one(&buf, &mut n, &mut nv);
        // exact-size heap copy so that a sanitizer sees any read past the end
        let exact: Box<[u8]> = buf[a..b].to_vec().into_boxed_slice();
        check_one(&exact, &mut n, &mut nv);
    }
    stat("utf8_strings", n);
    stat("utf8_valid", nv);
}

pub fn alloc_free(max: usize) {
    let mut n = 0u64;
    // size 0 included: the bundled JS runtime allocates and frees zero-length buffers for "" and []
    let mut sizes: Vec<usize> = (0..=max).collect();
    sizes.extend_from_slice(&[255, 256, 1000, 4096]);
    for size in sizes {
        for align in [1usize, 2, 4, 8, 16, 32, 64] {
            unsafe {
                let p = diplomat_alloc(size, align);
                if p.is_null() {
                    viol(format!("C16 diplomat_alloc({size},{align}) returned NULL"));
                    continue;
                }
                if (p as usize) % align != 0 {
                    viol(format!("C16 diplomat_alloc({size},{align}) misaligned pointer {:?}", p));
                }
                // the whole block must be writable and readable
                for i in 0..size {
                    p.add(i).write((i as u8) ^ 0x5a);
                }
                for i in 0..size {
                    if p.add(i).read() != (i as u8) ^ 0x5a {
                        viol(format!("C16 diplomat_alloc({size},{align}) byte {i} not retained"));
                    }
                }
                diplomat_free(p, size, align);
                n += 1;
            }
        }
    }
    stat("alloc_free_pairs", n);
}
