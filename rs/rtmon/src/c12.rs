//! C12: DiplomatWrite is exact and never overruns its buffer.
//!
//! The caller-supplied `grow` callback is the fault injector: its k-th call
//! fails, succeeds with exactly the requested capacity, or succeeds with more,
//! according to a script.  Buffers are heap allocations of *exactly* `cap`
//! bytes ("exact" mode: one byte too many is a heap overflow for Miri /
//! ASan / valgrind) or `cap` bytes followed by a canary ("canary" mode: the
//! monitor itself sees the overrun, no sanitizer needed).
use crate::{stat, viol, Rng};
use core::ffi::c_void;
use core::fmt::Write;
use diplomat_runtime::DiplomatWrite;
use std::alloc::{alloc, dealloc, Layout};

extern "C" {
    fn diplomat_buffer_write_get_bytes(this: &DiplomatWrite) -> *mut u8;
    fn diplomat_buffer_write_len(this: &DiplomatWrite) -> usize;
    fn diplomat_simple_write(buf: *mut u8, buf_size: usize) -> DiplomatWrite;
    fn diplomat_buffer_write_create(cap: usize) -> *mut DiplomatWrite;
    fn diplomat_buffer_write_destroy(this: *mut DiplomatWrite);
}

/// The documented public layout of DiplomatWrite (runtime.h / write.rs docs).
#[repr(C)]
struct Mirror {
    context: *mut c_void,
    buf: *mut u8,
    len: usize,
    cap: usize,
    grow_failed: bool,
    flush: extern "C" fn(*mut DiplomatWrite),
    grow: extern "C" fn(*mut DiplomatWrite, usize) -> bool,
}

const CANARY: usize = 24;
const CANARY_BYTE: u8 = 0xA5;

#[derive(Clone, Copy, PartialEq, Debug)]
enum Outcome {
    Fail,
    Exact,
    More,
}

struct Script {
    outcomes: Vec<Outcome>,
    next: usize,
    requests: Vec<usize>,
    flushes: usize,
    canary: bool,
    /// (ptr, cap) of the live buffer
    live: (*mut u8, usize),
    /// grow was asked again after it had failed
    grow_after_fail: bool,
    failed: bool,
    /// a request that was not larger than the current capacity
    bad_request: Option<(usize, usize)>,
}

unsafe fn buf_alloc(cap: usize, canary: bool) -> *mut u8 {
    let total = if canary { cap + CANARY } else { cap.max(1) };
    let p = alloc(Layout::from_size_align(total, 1).unwrap());
    assert!(!p.is_null());
    if canary {
        for i in 0..CANARY {
            p.add(cap + i).write(CANARY_BYTE);
        }
    }
    p
}
unsafe fn buf_free(p: *mut u8, cap: usize, canary: bool) {
    let total = if canary { cap + CANARY } else { cap.max(1) };
    dealloc(p, Layout::from_size_align(total, 1).unwrap());
}
unsafe fn canary_ok(p: *mut u8, cap: usize) -> bool {
    (0..CANARY).all(|i| p.add(cap + i).read() == CANARY_BYTE)
}

extern "C" fn my_flush(this: *mut DiplomatWrite) {
    unsafe {
        let m = this as *mut Mirror;
        let s = (*m).context as *mut Script;
        (*s).flushes += 1;
    }
}

extern "C" fn my_grow(this: *mut DiplomatWrite, capacity: usize) -> bool {
    unsafe {
        let m = this as *mut Mirror;
        let s = (*m).context as *mut Script;
        (*s).requests.push(capacity);
        if (*s).failed {
            (*s).grow_after_fail = true;
        }
        if capacity <= (*m).cap {
            (*s).bad_request = Some((capacity, (*m).cap));
        }
        let o = (&(*s).outcomes).get((*s).next).copied().unwrap_or(Outcome::Exact);
        (*s).next += 1;
        match o {
            Outcome::Fail => {
                (*s).failed = true;
                false
            }
            Outcome::Exact | Outcome::More => {
                let newcap = if o == Outcome::Exact { capacity } else { capacity + 5 };
                let newcap = newcap.max((*m).cap); // never shrink
                let nb = buf_alloc(newcap, (*s).canary);
                std::ptr::copy_nonoverlapping((*m).buf, nb, (*m).len);
                buf_free((*m).buf, (*m).cap, (*s).canary);
                (*m).buf = nb;
                (*m).cap = newcap;
                (*s).live = (nb, newcap);
                true
            }
        }
    }
}

pub const ALPHABET: &[&str] = &["", "a", "é", "€", "😀", "0123456789abcdefg"];

/// One scripted run over a caller-supplied writer. Returns the number of grow outcomes consumed.
fn run_custom(chunks: &[&str], outcomes: &[Outcome], cap0: usize, canary: bool, ops: &mut u64) -> usize {
    let desc = || format!("chunks={:?} outcomes={:?} cap0={} mode={}", chunks, outcomes, cap0, if canary { "canary" } else { "exact" });
    unsafe {
        let script = Box::into_raw(Box::new(Script {
            outcomes: outcomes.to_vec(),
            next: 0,
            requests: vec![],
            flushes: 0,
            canary,
            live: (std::ptr::null_mut(), 0),
            grow_after_fail: false,
            failed: false,
            bad_request: None,
        }));
        let b0 = buf_alloc(cap0, canary);
        (*script).live = (b0, cap0);
        let mirror = Box::into_raw(Box::new(Mirror {
            context: script as *mut c_void,
            buf: b0,
            len: 0,
            cap: cap0,
            grow_failed: false,
            flush: my_flush,
            grow: my_grow,
        }));
        assert_eq!(std::mem::size_of::<Mirror>(), std::mem::size_of::<DiplomatWrite>());
        let w = mirror as *mut DiplomatWrite;

        // model
        let mut m_buf: Vec<u8> = vec![];
        let mut m_cap = cap0;
        let mut m_failed = false;
        let mut m_next = 0usize;
        let mut m_requests: Vec<usize> = vec![];

        for (i, c) in chunks.iter().enumerate() {
            let r = put(&mut *w, c);
            *ops += 1;
            if r.is_err() {
                viol(format!("C12 write_str returned Err at chunk {i}: {}", desc()));
            }
            if !m_failed {
                let needed = m_buf.len() + c.len();
                if needed > m_cap {
                    let o = outcomes.get(m_next).copied().unwrap_or(Outcome::Exact);
                    m_next += 1;
                    m_requests.push(needed);
                    match o {
                        Outcome::Fail => m_failed = true,
                        Outcome::Exact => m_cap = needed,
                        Outcome::More => m_cap = needed + 5,
                    }
                }
                if !m_failed {
                    m_buf.extend_from_slice(c.as_bytes());
                }
            }
            // ---- observe after every operation ----
            let (len, cap, buf, failed) = ((*mirror).len, (*mirror).cap, (*mirror).buf, (*mirror).grow_failed);
            if len > cap {
                viol(format!("C12 len {len} > cap {cap} after chunk {i}: {}", desc()));
                break;
            }
            if failed != m_failed {
                viol(format!("C12 sticky flag is {failed}, model says {m_failed} after chunk {i}: {}", desc()));
            }
            let got = std::slice::from_raw_parts(buf, len);
            if got != &m_buf[..] {
                viol(format!("C12 contents after chunk {i} are {:?}, expected {:?}: {}", String::from_utf8_lossy(got), String::from_utf8_lossy(&m_buf), desc()));
            }
            if (*script).requests != m_requests {
                viol(format!("C12 grow requests {:?}, model expects {:?} after chunk {i}: {}", (*script).requests, m_requests, desc()));
            }
            if (*script).grow_after_fail {
                viol(format!("C12 grow() called again after it had failed (chunk {i}): {}", desc()));
            }
            if let Some((req, cur)) = (*script).bad_request {
                viol(format!("C12 grow() asked for {req} bytes while capacity was already {cur}: {}", desc()));
            }
            if canary && !canary_ok((*script).live.0, (*script).live.1) {
                viol(format!("C12 byte beyond capacity {cap} was written (canary damaged) after chunk {i}: {}", desc()));
                break;
            }
            // the exported accessors answer NULL/0 exactly after a failure
            let gb = diplomat_buffer_write_get_bytes(&*w);
            let gl = diplomat_buffer_write_len(&*w);
            if m_failed {
                if !gb.is_null() || gl != 0 {
                    viol(format!("C12 accessors after failed growth returned ({:?},{gl}), expected (NULL,0): {}", gb, desc()));
                }
            } else if gb != buf || gl != m_buf.len() {
                viol(format!("C12 accessors returned ({:?},{gl}), expected ({:?},{}): {}", gb, buf, m_buf.len(), desc()));
            }
        }
        (&mut *w).flush();
        (&mut *w).flush();
        if (*script).flushes != 2 {
            viol(format!("C12 flush callback ran {} times for 2 flush() calls: {}", (*script).flushes, desc()));
        }
        let got = std::slice::from_raw_parts((*mirror).buf, (*mirror).len);
        if got != &m_buf[..] {
            viol(format!("C12 contents changed by flush: {}", desc()));
        }
        let consumed = (*script).next;
        buf_free((*mirror).buf, (*mirror).cap, canary);
        drop(Box::from_raw(mirror));
        drop(Box::from_raw(script));
        consumed
    }
}

/// Which `fmt::Write` entry point delivers a chunk. All three must behave like one `write_str` of the chunk's UTF-8 bytes:
/// `write_char` (single-char chunks) and the `write!` machinery are what real bridge code uses (`write!(w, "{}", x)`).
static CHAR_API: std::sync::atomic::AtomicBool = std::sync::atomic::AtomicBool::new(false);
fn put(w: &mut DiplomatWrite, c: &str) -> std::fmt::Result {
    if CHAR_API.load(std::sync::atomic::Ordering::Relaxed) {
        let mut it = c.chars();
        match (it.next(), it.next()) {
            (Some(ch), None) => w.write_char(ch),
            _ => write!(w, "{}", c),
        }
    } else {
        w.write_str(c)
    }
}

/// Fixed-size writer over an exactly-sized heap buffer.
fn run_fixed(chunks: &[&str], size: usize, canary: bool, ops: &mut u64) {
    let desc = || format!("fixed writer size={} chunks={:?}", size, chunks);
    const FILL: u8 = 0xEE;
    unsafe {
        let total = if canary { size + CANARY } else { size };
        let p = alloc(Layout::from_size_align(total, 1).unwrap());
        for i in 0..total {
            p.add(i).write(if i < size { FILL } else { CANARY_BYTE });
        }
        let mut w: DiplomatWrite = diplomat_simple_write(p, size);
        let mut m_buf: Vec<u8> = vec![];
        let mut m_failed = false;
        for (i, c) in chunks.iter().enumerate() {
            let _ = put(&mut w, c);
            *ops += 1;
            if !m_failed {
                if m_buf.len() + c.len() > size - 1 {
                    m_failed = true;
                } else {
                    m_buf.extend_from_slice(c.as_bytes());
                }
            }
            let m = &w as *const DiplomatWrite as *const Mirror;
            if (*m).len != m_buf.len() || (*m).grow_failed != m_failed {
                viol(format!("C12 after chunk {i}: len={} failed={} expected len={} failed={}: {}", (*m).len, (*m).grow_failed, m_buf.len(), m_failed, desc()));
            }
            if (*m).len > size - 1 {
                viol(format!("C12 fixed writer len {} leaves no room for the NUL in {size} bytes: {}", (*m).len, desc()));
                break;
            }
            let gb = diplomat_buffer_write_get_bytes(&w);
            let gl = diplomat_buffer_write_len(&w);
            if m_failed && (!gb.is_null() || gl != 0) {
                viol(format!("C12 accessors after truncation returned ({:?},{gl}), expected (NULL,0): {}", gb, desc()));
            }
            if !m_failed && (gb != p || gl != m_buf.len()) {
                viol(format!("C12 accessors returned ({:?},{gl}), expected ({:?},{}): {}", gb, p, m_buf.len(), desc()));
            }
        }
        w.flush();
        w.flush();
        let all = std::slice::from_raw_parts(p, total);
        let n = m_buf.len();
        if &all[..n] != &m_buf[..] {
            viol(format!("C12 contents {:?} expected {:?}: {}", String::from_utf8_lossy(&all[..n]), String::from_utf8_lossy(&m_buf), desc()));
        }
        if n < size && all[n] != 0 {
            viol(format!("C12 no NUL terminator at offset {n}: {}", desc()));
        }
        for i in n + 1..size {
            if all[i] != FILL {
                viol(format!("C12 byte {i} after the terminator was modified: {}", desc()));
                break;
            }
        }
        for i in size..total {
            if all[i] != CANARY_BYTE {
                viol(format!("C12 byte {i} beyond the caller's {size}-byte buffer was written: {}", desc()));
                break;
            }
        }
        dealloc(p, Layout::from_size_align(total, 1).unwrap());
    }
}

/// Rust-owned growable writer.
fn run_owned(chunks: &[&str], cap0: usize, ops: &mut u64) {
    let desc = || format!("buffer writer cap0={} chunks={:?}", cap0, chunks);
    unsafe {
        let w = diplomat_buffer_write_create(cap0);
        let mut m_buf: Vec<u8> = vec![];
        {
            let m = w as *const Mirror;
            if (*m).len != 0 || (*m).cap < cap0 || (*m).grow_failed {
                viol(format!("C12 fresh writer has len={} cap={} failed={}: {}", (*m).len, (*m).cap, (*m).grow_failed, desc()));
            }
        }
        for (i, c) in chunks.iter().enumerate() {
            let _ = put(&mut *w, c);
            *ops += 1;
            m_buf.extend_from_slice(c.as_bytes());
            let gb = diplomat_buffer_write_get_bytes(&*w);
            let gl = diplomat_buffer_write_len(&*w);
            let m = w as *const Mirror;
            if (*m).len > (*m).cap {
                viol(format!("C12 len {} > cap {} after chunk {i}: {}", (*m).len, (*m).cap, desc()));
                break;
            }
            if gl != m_buf.len() || (gl > 0 && gb.is_null()) {
                viol(format!("C12 after chunk {i} accessors give len={gl} ptr={:?}, expected len={}: {}", gb, m_buf.len(), desc()));
                break;
            }
            if gl > 0 && std::slice::from_raw_parts(gb, gl) != &m_buf[..] {
                viol(format!("C12 contents after chunk {i} differ from what was written: {}", desc()));
            }
        }
        (&mut *w).flush();
        let gl = diplomat_buffer_write_len(&*w);
        if gl != m_buf.len() {
            viol(format!("C12 flush changed the length: {}", desc()));
        }
        diplomat_buffer_write_destroy(w);
    }
}

fn all_seqs(maxchunks: usize) -> Vec<Vec<&'static str>> {
    let mut out: Vec<Vec<&'static str>> = vec![vec![]];
    let mut frontier: Vec<Vec<&'static str>> = vec![vec![]];
    for _ in 0..maxchunks {
        let mut next = vec![];
        for s in &frontier {
            for a in ALPHABET {
                let mut t = s.clone();
                t.push(*a);
                next.push(t);
            }
        }
        out.extend(next.iter().cloned());
        frontier = next;
    }
    out
}

fn all_outcomes(k: usize) -> Vec<Vec<Outcome>> {
    let mut out = vec![vec![]];
    for _ in 0..k {
        let mut n = vec![];
        for p in &out {
            for o in [Outcome::Fail, Outcome::Exact, Outcome::More] {
                let mut q: Vec<Outcome> = p.clone();
                q.push(o);
                n.push(q);
            }
        }
        out = n;
    }
    out
}

pub const CAPS: &[usize] = &[1, 2, 3, 4, 5, 8, 16];

pub fn exhaustive(maxchunks: usize, shard: u64, nshards: u64, canary: bool) {
    let seqs = all_seqs(maxchunks);
    let mut ops = 0u64;
    let mut runs = 0u64;
    let mut patterns = std::collections::BTreeSet::new();
    for (si, seq) in seqs.iter().enumerate() {
        if (si as u64) % nshards != shard {
            continue;
        }
        // every other sequence (per shard) goes through write_char / write! instead of write_str
        CHAR_API.store((si as u64 / nshards) % 2 == 1, std::sync::atomic::Ordering::Relaxed);
        for &cap0 in CAPS {
            // enumerate grow-outcome patterns lazily: only prefixes that are actually consumed
            let mut done: std::collections::BTreeSet<Vec<u8>> = Default::default();
            for pat in all_outcomes(seq.len()) {
                // skip if a shorter consumed prefix of this pattern was already run
                let mut skip = false;
                for k in 0..=pat.len() {
                    let key: Vec<u8> = pat[..k].iter().map(|o| *o as u8).collect();
                    if done.contains(&key) {
                        skip = true;
                        break;
                    }
                }
                if skip {
                    continue;
                }
                let used = run_custom(seq, &pat, cap0, canary, &mut ops);
                let key: Vec<u8> = pat[..used.min(pat.len())].iter().map(|o| *o as u8).collect();
                patterns.insert(key.clone());
                done.insert(key);
                runs += 1;
            }
            run_owned(seq, cap0, &mut ops);
            runs += 1;
        }
        run_owned(seq, 0, &mut ops);
        for size in 1..=20usize {
            run_fixed(seq, size, canary, &mut ops);
            runs += 1;
        }
    }
    stat("chunk_sequences", seqs.len() as u64);
    stat("runs", runs);
    stat("write_ops", ops);
    stat("distinct_grow_patterns", patterns.len() as u64);
}

pub fn random(seed: u64, count: u64, canary: bool) {
    let mut rng = Rng(seed ^ 0xC12);
    let mut ops = 0u64;
    let mut runs = 0u64;
    let long: String = "xyz€".repeat(40);
    for _ in 0..count {
        let n = 1 + rng.below(12) as usize;
        let mut seq: Vec<&str> = vec![];
        for _ in 0..n {
            if rng.chance(1, 10) {
                let k = rng.below(long.len() as u64) as usize;
                // cut at a char boundary
                let mut k2 = k;
                while !long.is_char_boundary(k2) {
                    k2 -= 1;
                }
                seq.push(&long[..k2]);
            } else {
                seq.push(ALPHABET[rng.below(ALPHABET.len() as u64) as usize]);
            }
        }
        let pat: Vec<Outcome> = (0..n)
            .map(|_| match rng.below(8) {
                0 => Outcome::Fail,
                1..=4 => Outcome::Exact,
                _ => Outcome::More,
            })
            .collect();
        let cap0 = 1 + rng.below(40) as usize;
        CHAR_API.store(rng.chance(1, 2), std::sync::atomic::Ordering::Relaxed);
        run_custom(&seq, &pat, cap0, canary, &mut ops);
        run_owned(&seq, rng.below(40) as usize, &mut ops);
        run_fixed(&seq, 1 + rng.below(200) as usize, canary, &mut ops);
        runs += 3;
    }
    stat("runs", runs);
    stat("write_ops", ops);
}


/// The Rust-owned writer (diplomat_buffer_write_create) when the allocator refuses the growth a write needs. Two outcomes are legitimate:
/// the process ends in Rust's allocation-failure abort before anything is released (what `Vec::reserve` does), or the growth is reported
/// as failed — then the sticky flag must be set, the accessors must answer (NULL, 0), what was written before is still owned by the
/// writer, and destroying it must release that buffer exactly once (sanitizers / Miri / glibc watch the frees).
pub fn oom(cap0: usize, prelen: usize) {
    use std::fmt::Write as _;
    unsafe {
        let w = diplomat_buffer_write_create(cap0);
        let pre = "p".repeat(prelen);
        let _ = (*w).write_str(&pre);
        let m = w as *const Mirror;
        if (*m).len != prelen || (*m).grow_failed {
            viol(format!("C12 oom: before the refused growth len={} failed={} expected len={prelen}", (*m).len, (*m).grow_failed));
        }
        let big = "y".repeat(1 << 16);
        crate::FAIL_ABOVE.store(4096, std::sync::atomic::Ordering::Relaxed);
        println!("ARMED");
        let r = (*w).write_str(&big);
        crate::FAIL_ABOVE.store(usize::MAX, std::sync::atomic::Ordering::Relaxed);
        println!("SURVIVED");
        if r.is_ok() && !(*m).grow_failed && (*m).len != prelen + big.len() {
            viol(format!("C12 oom: refused growth reported as success with len={}", (*m).len));
        }
        if (*m).grow_failed {
            let gb = diplomat_buffer_write_get_bytes(&*w);
            let gl = diplomat_buffer_write_len(&*w);
            if !gb.is_null() || gl != 0 {
                viol(format!("C12 oom: accessors after a failed growth returned ({:?},{gl}), expected (NULL,0)", gb));
            }
            if (*m).len != prelen {
                viol(format!("C12 oom: a partial chunk was kept: len={} expected {prelen}", (*m).len));
            }
            // later writes stay dropped
            let _ = (*w).write_str("z");
            if (*m).len != prelen {
                viol(format!("C12 oom: a write after the failed growth was appended (len={})", (*m).len));
            }
        }
        diplomat_buffer_write_destroy(w);
        stat("oom_scenarios", 1);
    }
}
