//! rtmon: runtime monitors for diplomat-runtime (properties C03, C12, C16).
//!
//! Every sub-command drives the *real* runtime crate (path dependency on the
//! working tree) and compares what it observes with a small independent model.
//! The process prints `STAT k=v` lines and `VIOLATION-DETAIL <text>` lines; the
//! python orchestrator turns them into evidence / VIOLATION lines.  The same
//! binary is run natively (debug + release), under valgrind, built with
//! -Zsanitizer=address, and under Miri.
#![allow(clippy::all)]
#![allow(clashing_extern_declarations)]

mod c03;
mod c12;
mod c16;
mod utf8;

use std::cell::Cell;

/// Fault-injecting global allocator: requests of at least FAIL_ABOVE bytes are refused (returns NULL) while armed. It keeps no record
/// of addresses, so LeakSanitizer / memcheck / Miri see exactly what the system allocator sees.
pub static FAIL_ABOVE: std::sync::atomic::AtomicUsize = std::sync::atomic::AtomicUsize::new(usize::MAX);
struct Inject;
unsafe impl std::alloc::GlobalAlloc for Inject {
    unsafe fn alloc(&self, l: std::alloc::Layout) -> *mut u8 {
        if l.size() >= FAIL_ABOVE.load(std::sync::atomic::Ordering::Relaxed) {
            return std::ptr::null_mut();
        }
        std::alloc::System.alloc(l)
    }
    unsafe fn alloc_zeroed(&self, l: std::alloc::Layout) -> *mut u8 {
        if l.size() >= FAIL_ABOVE.load(std::sync::atomic::Ordering::Relaxed) {
            return std::ptr::null_mut();
        }
        std::alloc::System.alloc_zeroed(l)
    }
    unsafe fn dealloc(&self, p: *mut u8, l: std::alloc::Layout) {
        std::alloc::System.dealloc(p, l)
    }
    unsafe fn realloc(&self, p: *mut u8, l: std::alloc::Layout, new_size: usize) -> *mut u8 {
        if new_size >= FAIL_ABOVE.load(std::sync::atomic::Ordering::Relaxed) {
            return std::ptr::null_mut();
        }
        std::alloc::System.realloc(p, l, new_size)
    }
}
#[global_allocator]
static GLOBAL: Inject = Inject;

thread_local! {
    pub static VIOLATIONS: Cell<u64> = Cell::new(0);
}

pub fn viol(msg: String) {
    let n = VIOLATIONS.with(|v| {
        v.set(v.get() + 1);
        v.get()
    });
    if n <= 25 {
        println!("VIOLATION-DETAIL {}", msg);
    }
}

pub fn stat(k: &str, v: u64) {
    println!("STAT {}={}", k, v);
}

/// splitmix64
pub struct Rng(pub u64);
impl Rng {
    pub fn next(&mut self) -> u64 {
        self.0 = self.0.wrapping_add(0x9E3779B97F4A7C15);
        let mut z = self.0;
        z = (z ^ (z >> 30)).wrapping_mul(0xBF58476D1CE4E5B9);
        z = (z ^ (z >> 27)).wrapping_mul(0x94D049BB133111EB);
        z ^ (z >> 31)
    }
    pub fn below(&mut self, n: u64) -> u64 {
        if n == 0 {
            0
        } else {
            self.next() % n
        }
    }
    pub fn chance(&mut self, num: u64, den: u64) -> bool {
        self.below(den) < num
    }
}

fn arg_u64(args: &[String], i: usize, default: u64) -> u64 {
    args.get(i).and_then(|s| s.parse().ok()).unwrap_or(default)
}

fn main() {
    let args: Vec<String> = std::env::args().collect();
    let cmd = args.get(1).map(|s| s.as_str()).unwrap_or("");
    match cmd {
        // C16
        "c16-roundtrip" => c16::roundtrip(arg_u64(&args, 2, 16) as usize),
        "c16-utf8-exh" => c16::utf8_exhaustive(
            arg_u64(&args, 2, 3) as usize,
            arg_u64(&args, 3, 0),
            arg_u64(&args, 4, 1),
        ),
        "c16-utf8-lead4" => c16::utf8_lead4(arg_u64(&args, 2, 0), arg_u64(&args, 3, 1), arg_u64(&args, 4, 1)),
        "c16-utf8-rand" => c16::utf8_random(arg_u64(&args, 2, 1), arg_u64(&args, 3, 1000)),
        "c16-alloc" => c16::alloc_free(arg_u64(&args, 2, 64) as usize),
        // C12
        "c12-exh" => c12::exhaustive(
            arg_u64(&args, 2, 3) as usize,
            arg_u64(&args, 3, 0),
            arg_u64(&args, 4, 1),
            args.get(5).map(|s| s == "canary").unwrap_or(false),
        ),
        "c12-rand" => c12::random(
            arg_u64(&args, 2, 1),
            arg_u64(&args, 3, 100),
            args.get(4).map(|s| s == "canary").unwrap_or(false),
        ),
        // C03
        "c03" => c03::histories(arg_u64(&args, 2, 1), arg_u64(&args, 3, 100), arg_u64(&args, 4, 12)),
        "c03-directed" => c03::directed(arg_u64(&args, 2, 400)),
        // build / interpreter probe: runs no code of the runtime, so that a defect there shows up in a monitored job, not in the set-up step
        "ping" => {}
        // C12 / C03: the Rust-owned writer when the allocator refuses to grow it
        "c12-oom" => c12::oom(arg_u64(&args, 2, 16) as usize, arg_u64(&args, 3, 5) as usize),
        _ => {
            eprintln!("usage: rtmon <c16-roundtrip|c16-utf8-exh|c16-utf8-lead4|c16-utf8-rand|c16-alloc|c12-exh|c12-rand|c03|c03-directed> ...");
            std::process::exit(64);
        }
    }
    let v = VIOLATIONS.with(|v| v.get());
    stat("violations", v);
    println!("DONE");
}
