//! C03 (runtime half): the FFI-safe result / option / slice / callback types
//! drop their payload exactly once under every conversion history.
//!
//! Payloads are `Tracked` values with a unique id; `Drop` bumps a per-id
//! counter.  The monitor keeps its own model of which ids are alive and, after
//! *every* operation, checks counter == 0 for live ids and == 1 for dead ones.
//! Ids, not addresses, are remembered, so leak detectors are not masked.
use crate::{stat, viol, Rng};
use core::ffi::c_void;
use diplomat_runtime::*;
use std::cell::RefCell;

thread_local! {
    static DROPS: RefCell<Vec<u32>> = RefCell::new(Vec::new());
}

fn new_id() -> u32 {
    DROPS.with(|d| {
        let mut d = d.borrow_mut();
        d.push(0);
        (d.len() - 1) as u32
    })
}
fn drops(id: u32) -> u32 {
    DROPS.with(|d| d.borrow()[id as usize])
}
fn next_id() -> u32 {
    DROPS.with(|d| d.borrow().len() as u32)
}

/// Owns heap memory as well, so that Miri / ASan / valgrind see a double drop as a
/// double free and a missed drop as a leak, independently of the counter monitor.
pub struct Tracked {
    id: u32,
    heap: Box<u32>,
}
impl Tracked {
    fn new() -> Self {
        let id = new_id();
        Tracked { id, heap: Box::new(id) }
    }
    fn check(&self) -> u32 {
        if *self.heap != self.id {
            viol(format!("C03 payload #{} corrupted (heap copy says {})", self.id, *self.heap));
        }
        self.id
    }
}
impl Clone for Tracked {
    fn clone(&self) -> Self {
        Tracked::new()
    }
}
impl Drop for Tracked {
    fn drop(&mut self) {
        DROPS.with(|d| d.borrow_mut()[self.id as usize] += 1);
    }
}
pub struct Converted(Tracked);
impl From<Tracked> for Converted {
    fn from(t: Tracked) -> Self {
        Converted(t)
    }
}

#[repr(C)]
struct Raw<T> {
    ptr: *mut T,
    len: usize,
}

unsafe extern "C" fn cb_destructor(data: *mut c_void) {
    drop(Box::from_raw(data as *mut Tracked));
}
unsafe extern "C" fn cb_run(_data: *mut c_void) -> i32 {
    7
}

enum V {
    Res(DiplomatResult<Tracked, Tracked>),
    ResBox(DiplomatResult<Box<Tracked>, Vec<Tracked>>),
    StdRes(Result<Tracked, Tracked>),
    StdResBox(Result<Box<Tracked>, Vec<Tracked>>),
    ResPodOk(DiplomatResult<u32, Tracked>),
    StdResPodOk(Result<u32, Tracked>),
    ResUnitOk(DiplomatResult<(), Vec<Tracked>>),
    StdResUnitOk(Result<(), Vec<Tracked>>),
    ResPodErr(DiplomatResult<Box<Tracked>, u64>),
    StdResPodErr(Result<Box<Tracked>, u64>),
    OptPod(DiplomatOption<u64>, Option<u64>),
    Opt(DiplomatOption<Tracked>),
    StdOpt(Option<Tracked>),
    StdOptConv(Option<Converted>),
    Owned(DiplomatOwnedSlice<Tracked>),
    BoxSlice(Box<[Tracked]>),
    OptOwned(DiplomatOption<DiplomatOwnedSlice<Tracked>>),
    StdOptOwned(Option<DiplomatOwnedSlice<Tracked>>),
    StdOptBoxSlice(Option<Box<[Tracked]>>),
    Nested(DiplomatResult<DiplomatOwnedSlice<Tracked>, DiplomatOption<Tracked>>),
    StdNested(Result<DiplomatOwnedSlice<Tracked>, DiplomatOption<Tracked>>),
    OwnedStr(DiplomatOwnedUTF8StrSlice, String),
    BoxStr(Box<str>, String),
    OptOwnedStr(DiplomatOption<DiplomatOwnedUTF8StrSlice>, Option<String>),
    StdOptOwnedStr(Option<DiplomatOwnedUTF8StrSlice>, Option<String>),
    Cb(DiplomatCallback<i32>),
    Write(*mut DiplomatWrite),
}

struct Entry {
    v: V,
    ids: Vec<u32>,
}

fn kind(v: &V) -> &'static str {
    match v {
        V::Res(_) => "DiplomatResult<T,E>",
        V::ResBox(_) => "DiplomatResult<Box<T>,Vec<E>>",
        V::StdRes(_) => "Result<T,E>",
        V::StdResBox(_) => "Result<Box<T>,Vec<E>>",
        V::ResPodOk(_) => "DiplomatResult<u32,E>",
        V::StdResPodOk(_) => "Result<u32,E>",
        V::ResUnitOk(_) => "DiplomatResult<(),Vec<E>>",
        V::StdResUnitOk(_) => "Result<(),Vec<E>>",
        V::ResPodErr(_) => "DiplomatResult<Box<T>,u64>",
        V::StdResPodErr(_) => "Result<Box<T>,u64>",
        V::OptPod(..) => "DiplomatOption<u64>",
        V::Opt(_) => "DiplomatOption<T>",
        V::StdOpt(_) => "Option<T>",
        V::StdOptConv(_) => "Option<U: From<T>>",
        V::Owned(_) => "DiplomatOwnedSlice<T>",
        V::BoxSlice(_) => "Box<[T]>",
        V::OptOwned(_) => "DiplomatOption<DiplomatOwnedSlice<T>>",
        V::StdOptOwned(_) => "Option<DiplomatOwnedSlice<T>>",
        V::StdOptBoxSlice(_) => "Option<Box<[T]>>",
        V::Nested(_) => "DiplomatResult<DiplomatOwnedSlice<T>,DiplomatOption<T>>",
        V::StdNested(_) => "Result<DiplomatOwnedSlice<T>,DiplomatOption<T>>",
        V::OwnedStr(..) => "DiplomatOwnedUTF8StrSlice",
        V::BoxStr(..) => "Box<str>",
        V::OptOwnedStr(..) => "DiplomatOption<DiplomatOwnedUTF8StrSlice>",
        V::StdOptOwnedStr(..) => "Option<DiplomatOwnedUTF8StrSlice>",
        V::Cb(_) => "DiplomatCallback",
        V::Write(_) => "*mut DiplomatWrite",
    }
}

fn tracked_vec(n: usize, ids: &mut Vec<u32>) -> Vec<Tracked> {
    (0..n)
        .map(|_| {
            let t = Tracked::new();
            ids.push(t.id);
            t
        })
        .collect()
}

fn create(rng: &mut Rng) -> Entry {
    let mut ids = vec![];
    let mut t = |ids: &mut Vec<u32>| {
        let t = Tracked::new();
        ids.push(t.id);
        t
    };
    let arm = rng.chance(1, 2);
    let v = match rng.below(18) {
        0 => V::Res(if arm { Ok(t(&mut ids)) } else { Err(t(&mut ids)) }.into()),
        1 => V::StdRes(if arm { Ok(t(&mut ids)) } else { Err(t(&mut ids)) }),
        2 => {
            let n = rng.below(4) as usize;
            V::ResBox(if arm { Ok(Box::new(t(&mut ids))) } else { Err(tracked_vec(n, &mut ids)) }.into())
        }
        3 => V::Opt(if arm { Some(t(&mut ids)) } else { None }.into()),
        4 => V::StdOpt(if arm { Some(t(&mut ids)) } else { None }),
        5 => {
            let n = rng.below(5) as usize;
            V::Owned(tracked_vec(n, &mut ids).into_boxed_slice().into())
        }
        6 => {
            let n = rng.below(5) as usize;
            V::BoxSlice(tracked_vec(n, &mut ids).into_boxed_slice())
        }
        7 => {
            // what a C caller sends for an empty owned slice
            V::Owned(unsafe { std::mem::transmute::<Raw<Tracked>, DiplomatOwnedSlice<Tracked>>(Raw { ptr: std::ptr::null_mut(), len: 0 }) })
        }
        8 => {
            let n = rng.below(4) as usize;
            V::OptOwned(if arm { Some(DiplomatOwnedSlice::from(tracked_vec(n, &mut ids).into_boxed_slice())) } else { None }.into())
        }
        9 => {
            let n = rng.below(4) as usize;
            V::Nested(
                if arm {
                    Ok(DiplomatOwnedSlice::from(tracked_vec(n, &mut ids).into_boxed_slice()))
                } else {
                    Err(DiplomatOption::from(if n > 0 { Some(t(&mut ids)) } else { None }))
                }
                .into(),
            )
        }
        10 => {
            let s: String = ["", "a", "héllo", "😀😀"][rng.below(4) as usize].to_string();
            if arm {
                V::OwnedStr(s.clone().into_boxed_str().into(), s)
            } else {
                V::OptOwnedStr(
                    if rng.chance(2, 3) { Some(DiplomatOwnedUTF8StrSlice::from(s.clone().into_boxed_str())) } else { None }.into(),
                    None,
                )
                .fix_str(s)
            }
        }
        11 => {
            let data = Box::into_raw(Box::new(t(&mut ids))) as *mut c_void;
            let with_destructor = rng.chance(3, 4);
            if !with_destructor {
                // the foreign side keeps ownership: release it ourselves right away so the model stays simple
                unsafe { drop(Box::from_raw(data as *mut Tracked)) };
                let dead = ids.pop().unwrap();
                if drops(dead) != 1 {
                    viol("C03 harness self-check failed".into());
                }
            }
            V::Cb(DiplomatCallback {
                data: if with_destructor { data } else { std::ptr::null_mut() },
                run_callback: unsafe {
                    std::mem::transmute::<unsafe extern "C" fn(*mut c_void) -> i32, unsafe extern "C" fn(*mut c_void, ...) -> i32>(cb_run)
                },
                destructor: if with_destructor { Some(cb_destructor) } else { None },
            })
        }
        12 => V::Write(diplomat_buffer_write_create(rng.below(9) as usize)),
        13 => V::ResPodOk(if arm { Ok(rng.next() as u32) } else { Err(t(&mut ids)) }.into()),
        14 => {
            let n = 1 + rng.below(3) as usize;
            V::ResUnitOk(if arm { Ok(()) } else { Err(tracked_vec(n, &mut ids)) }.into())
        }
        15 => V::ResPodErr(if arm { Ok(Box::new(t(&mut ids))) } else { Err(rng.next()) }.into()),
        16 => {
            let o = if arm { Some(rng.next()) } else { None };
            V::OptPod(o.into(), o)
        }
        _ => {
            let n = rng.below(3) as usize;
            V::StdOptBoxSlice(if arm { Some(tracked_vec(n, &mut ids).into_boxed_slice()) } else { None })
        }
    };
    Entry { v, ids }
}

impl V {
    fn fix_str(self, s: String) -> V {
        match self {
            V::OptOwnedStr(o, _) => {
                let some = o.as_ref().is_ok();
                V::OptOwnedStr(o, if some { Some(s) } else { None })
            }
            v => v,
        }
    }
}

fn ids_of_slice(s: &[Tracked]) -> Vec<u32> {
    s.iter().map(|t| t.check()).collect()
}

/// Read the payload ids through the type's own accessors; must equal the model.
fn observe(e: &mut Entry, rng: &mut Rng) {
    let seen: Option<Vec<u32>> = match &mut e.v {
        V::Res(r) => Some(match r.as_ref() {
            Ok(t) => vec![t.check()],
            Err(t) => vec![t.check()],
        }),
        V::ResBox(r) => Some(match r.as_ref() {
            Ok(t) => vec![t.check()],
            Err(v) => ids_of_slice(v),
        }),
        V::ResPodOk(r) => Some(match r.as_ref() {
            Ok(_) => vec![],
            Err(t) => vec![t.check()],
        }),
        V::ResUnitOk(r) => Some(match r.as_ref() {
            Ok(()) => vec![],
            Err(v) => ids_of_slice(v),
        }),
        V::ResPodErr(r) => Some(match r.as_ref() {
            Ok(t) => vec![t.check()],
            Err(_) => vec![],
        }),
        V::OptPod(o, want) => {
            let got = o.as_ref().ok().copied();
            if got != *want {
                viol(format!("C03 DiplomatOption<u64> reads {:?}, expected {:?}", got, want));
            }
            None
        }
        V::Opt(o) => Some(match o.as_ref() {
            Ok(t) => vec![t.check()],
            Err(()) => vec![],
        }),
        V::Owned(o) => {
            let n = o.len();
            if n >= 2 {
                let (a, b) = (rng.below(n as u64) as usize, rng.below(n as u64) as usize);
                o.swap(a, b); // through DerefMut; moves, never drops
            }
            let mut v = ids_of_slice(&o);
            v.sort();
            let mut w = e.ids.clone();
            w.sort();
            if v != w {
                viol(format!("C03 DiplomatOwnedSlice deref shows ids {:?}, model {:?}", v, w));
            }
            None
        }
        V::OptOwned(o) => Some(match o.as_ref() {
            Ok(s) => ids_of_slice(s),
            Err(()) => vec![],
        }),
        V::Nested(r) => Some(match r.as_ref() {
            Ok(s) => ids_of_slice(s),
            Err(o) => match o.as_ref() {
                Ok(t) => vec![t.check()],
                Err(()) => vec![],
            },
        }),
        V::OwnedStr(o, s) => {
            if &**o != s.as_str() {
                viol(format!("C03 DiplomatOwnedUTF8StrSlice reads {:?}, expected {:?}", &**o, s));
            }
            None
        }
        V::OptOwnedStr(o, s) => {
            let got = o.as_ref().ok().map(|x| x.to_string());
            if &got != s {
                viol(format!("C03 DiplomatOption<DiplomatOwnedUTF8StrSlice> reads {:?}, expected {:?}", got, s));
            }
            None
        }
        V::Write(w) => unsafe {
            use core::fmt::Write;
            let _ = (&mut **w).write_str("some text that forces the buffer to grow");
            None
        },
        _ => None,
    };
    if let Some(seen) = seen {
        if seen != e.ids {
            viol(format!("C03 {} as_ref shows ids {:?}, model {:?}", kind(&e.v), seen, e.ids));
        }
    }
}

/// Convert to the sibling representation. Ownership moves; nothing may be dropped.
fn convert(e: Entry) -> Entry {
    let ids = e.ids;
    let v = match e.v {
        V::Res(r) => V::StdRes(r.into()),
        V::StdRes(r) => V::Res(r.into()),
        V::ResBox(r) => V::StdResBox(r.into()),
        V::StdResBox(r) => V::ResBox(r.into()),
        V::ResPodOk(r) => V::StdResPodOk(r.into()),
        V::StdResPodOk(r) => V::ResPodOk(r.into()),
        V::ResUnitOk(r) => V::StdResUnitOk(r.into()),
        V::StdResUnitOk(r) => V::ResUnitOk(r.into()),
        V::ResPodErr(r) => V::StdResPodErr(r.into()),
        V::StdResPodErr(r) => V::ResPodErr(r.into()),
        V::OptPod(o, w) => {
            let back: Option<u64> = o.clone().into_option();
            if back != w {
                viol(format!("C03 DiplomatOption<u64> -> Option reads {:?}, expected {:?}", back, w));
            }
            V::OptPod(o, w)
        }
        V::Opt(o) => {
            if ids.len() % 2 == 0 || ids.first().map(|i| i % 2 == 0).unwrap_or(false) {
                V::StdOpt(o.into_option())
            } else {
                V::StdOptConv(o.into_converted_option::<Converted>())
            }
        }
        V::StdOpt(o) => V::Opt(o.into()),
        V::StdOptConv(o) => V::StdOpt(o.map(|c| c.0)),
        V::Owned(o) => V::BoxSlice(o.into()),
        V::BoxSlice(b) => V::Owned(b.into()),
        // exactly what the proc macro emits for an `Option<Box<[T]>>` parameter:
        //   let x: Option<DiplomatOwnedSlice<T>> = x.into();  let x = x.map(|v| v.into());
        V::OptOwned(o) => V::StdOptOwned(o.into()),
        V::StdOptOwned(o) => V::StdOptBoxSlice(o.map(|v| v.into())),
        V::StdOptBoxSlice(o) => V::OptOwned(o.map(DiplomatOwnedSlice::from).into()),
        V::Nested(r) => V::StdNested(r.into()),
        V::StdNested(r) => V::Nested(r.into()),
        V::OwnedStr(o, s) => V::BoxStr(o.into(), s),
        V::BoxStr(b, s) => {
            if &*b != s.as_str() {
                viol(format!("C03 Box<str> from DiplomatOwnedUTF8StrSlice reads {:?}, expected {:?}", &*b, s));
            }
            V::OwnedStr(b.into(), s)
        }
        V::OptOwnedStr(o, s) => V::StdOptOwnedStr(o.into(), s),
        V::StdOptOwnedStr(o, s) => {
            let b: Option<Box<str>> = o.map(|v| v.into());
            if b.as_deref() != s.as_deref() {
                viol(format!("C03 Option<Box<str>> reads {:?}, expected {:?}", b, s));
            }
            V::OptOwnedStr(b.map(DiplomatOwnedUTF8StrSlice::from).into(), s)
        }
        v @ V::Cb(_) => v,
        v @ V::Write(_) => v,
    };
    Entry { v, ids }
}

fn try_clone(e: &Entry) -> Option<Entry> {
    let before = next_id();
    let v = match &e.v {
        V::Res(r) => V::Res(r.clone()),
        V::ResBox(r) => V::ResBox(r.clone()),
        V::Opt(o) => V::Opt(o.clone()),
        V::ResPodOk(r) => V::ResPodOk(r.clone()),
        V::ResUnitOk(r) => V::ResUnitOk(r.clone()),
        V::ResPodErr(r) => V::ResPodErr(r.clone()),
        _ => return None,
    };
    let after = next_id();
    let ids: Vec<u32> = (before..after).collect();
    if ids.len() != e.ids.len() {
        viol(format!("C03 clone of {} created {} payloads, original holds {}", kind(&e.v), ids.len(), e.ids.len()));
    }
    Some(Entry { v, ids })
}

fn destroy(e: Entry) -> Vec<u32> {
    let ids = e.ids;
    match e.v {
        V::Write(w) => unsafe { diplomat_buffer_write_destroy(w) },
        v => drop(v),
    }
    ids
}

struct Model {
    live: Vec<u32>,
    dead: Vec<u32>,
}

fn audit(m: &Model, what: &str, hist: &[String]) -> bool {
    let mut ok = true;
    for &id in &m.live {
        let d = drops(id);
        if d != 0 {
            viol(format!("C03 payload #{id} is still owned by a live value but was dropped {d} time(s) after `{what}`; history: {:?}", hist));
            ok = false;
        }
    }
    for &id in &m.dead {
        let d = drops(id);
        if d != 1 {
            viol(format!("C03 payload #{id} was dropped {d} time(s) instead of once after `{what}`; history: {:?}", hist));
            ok = false;
        }
    }
    ok
}

pub fn histories(seed: u64, count: u64, maxops: u64) {
    let mut ops_total = 0u64;
    let mut kinds = std::collections::BTreeSet::new();
    let mut shapes = std::collections::BTreeSet::new();
    let mut payloads = 0u64;
    for h in 0..count {
        let mut rng = Rng(seed.wrapping_mul(1_000_003).wrapping_add(h) ^ 0xC03);
        let mut pool: Vec<Entry> = vec![];
        let mut model = Model { live: vec![], dead: vec![] };
        let mut hist: Vec<String> = vec![];
        let nops = 2 + rng.below(maxops.max(1));
        let mut shape = String::new();
        for _ in 0..nops {
            let choice = if pool.is_empty() { 0 } else { rng.below(10) };
            let what;
            match choice {
                0 | 1 | 2 => {
                    let e = create(&mut rng);
                    what = format!("create {} ids={:?}", kind(&e.v), e.ids);
                    shape.push('c');
                    kinds.insert(kind(&e.v));
                    model.live.extend(e.ids.iter().copied());
                    payloads += e.ids.len() as u64;
                    pool.push(e);
                }
                3 | 4 | 5 => {
                    let i = rng.below(pool.len() as u64) as usize;
                    let e = pool.swap_remove(i);
                    let from = kind(&e.v);
                    let e = convert(e);
                    what = format!("convert {} -> {} ids={:?}", from, kind(&e.v), e.ids);
                    shape.push('v');
                    kinds.insert(kind(&e.v));
                    pool.push(e);
                }
                6 => {
                    let i = rng.below(pool.len() as u64) as usize;
                    what = format!("observe {} ids={:?}", kind(&pool[i].v), pool[i].ids);
                    shape.push('o');
                    observe(&mut pool[i], &mut rng);
                }
                7 => {
                    let i = rng.below(pool.len() as u64) as usize;
                    if let Some(c) = try_clone(&pool[i]) {
                        what = format!("clone {} ids={:?} -> {:?}", kind(&c.v), pool[i].ids, c.ids);
                        shape.push('k');
                        model.live.extend(c.ids.iter().copied());
                        payloads += c.ids.len() as u64;
                        pool.push(c);
                    } else {
                        what = "noop".to_string();
                    }
                }
                _ => {
                    let i = rng.below(pool.len() as u64) as usize;
                    let e = pool.swap_remove(i);
                    what = format!("drop {} ids={:?}", kind(&e.v), e.ids);
                    shape.push('d');
                    let ids = destroy(e);
                    model.live.retain(|x| !ids.contains(x));
                    model.dead.extend(ids);
                }
            }
            hist.push(what.clone());
            ops_total += 1;
            if !audit(&model, &what, &hist) {
                break;
            }
        }
        // quiescence: release everything that is left, every id must have been dropped exactly once
        while let Some(e) = pool.pop() {
            let what = format!("final drop {} ids={:?}", kind(&e.v), e.ids);
            let ids = destroy(e);
            model.live.retain(|x| !ids.contains(x));
            model.dead.extend(ids);
            hist.push(what.clone());
            audit(&model, &what, &hist);
        }
        shapes.insert(shape);
    }
    stat("histories", count);
    stat("ops", ops_total);
    stat("payloads_tracked", payloads);
    stat("value_kinds_seen", kinds.len() as u64);
    stat("distinct_op_shapes", shapes.len() as u64);
}

/// Every conversion edge once, both arms, in a fixed order: a small deterministic
/// smoke run whose output names the edge that fails.
pub fn directed(rounds: u64) {
    let mut n = 0u64;
    let mut model = Model { live: vec![], dead: vec![] };
    let mut rng = Rng(7);
    // each creatable kind, walked around its conversion cycle twice, observed at each stop, then dropped
    for round in 0..rounds {
        let mut e = create(&mut rng);
        model.live.extend(e.ids.iter().copied());
        let mut hist = vec![format!("create {} ids={:?}", kind(&e.v), e.ids)];
        for _ in 0..(round % 7) {
            observe(&mut e, &mut rng);
            let from = kind(&e.v);
            e = convert(e);
            let what = format!("convert {} -> {}", from, kind(&e.v));
            hist.push(what.clone());
            n += 1;
            audit(&model, &what, &hist);
        }
        let what = format!("drop {}", kind(&e.v));
        let ids = destroy(e);
        model.live.retain(|x| !ids.contains(x));
        model.dead.extend(ids);
        hist.push(what.clone());
        audit(&model, &what, &hist);
        n += 1;
    }
    stat("directed_steps", n);
}
