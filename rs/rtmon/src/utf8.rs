//! Independent UTF-8 validity oracle written directly from RFC 3629 §4
//! (Table "Syntax of UTF-8 Byte Sequences"). Deliberately does not use core::str.

#[inline]
fn cont(b: u8) -> bool {
    (0x80..=0xBF).contains(&b)
}

pub fn is_utf8(b: &[u8]) -> bool {
    let n = b.len();
    let mut i = 0;
    while i < n {
        let c = b[i];
        match c {
            0x00..=0x7F => i += 1,
            0xC2..=0xDF => {
                if i + 1 >= n || !cont(b[i + 1]) {
                    return false;
                }
                i += 2;
            }
            0xE0 => {
                if i + 2 >= n || !(0xA0..=0xBF).contains(&b[i + 1]) || !cont(b[i + 2]) {
                    return false;
                }
                i += 3;
            }
            0xE1..=0xEC | 0xEE..=0xEF => {
                if i + 2 >= n || !cont(b[i + 1]) || !cont(b[i + 2]) {
                    return false;
                }
                i += 3;
            }
            0xED => {
                if i + 2 >= n || !(0x80..=0x9F).contains(&b[i + 1]) || !cont(b[i + 2]) {
                    return false;
                }
                i += 3;
            }
            0xF0 => {
                if i + 3 >= n || !(0x90..=0xBF).contains(&b[i + 1]) || !cont(b[i + 2]) || !cont(b[i + 3]) {
                    return false;
                }
                i += 4;
            }
            0xF1..=0xF3 => {
                if i + 3 >= n || !cont(b[i + 1]) || !cont(b[i + 2]) || !cont(b[i + 3]) {
                    return false;
                }
                i += 4;
            }
            0xF4 => {
                if i + 3 >= n || !(0x80..=0x8F).contains(&b[i + 1]) || !cont(b[i + 2]) || !cont(b[i + 3]) {
                    return false;
                }
                i += 4;
            }
            _ => return false,
        }
    }
    true
}
