//! hirdump: prints what the *public* diplomat_core API computes for a bridge file, as line-oriented records:
//!   LOWERING-ERROR <ctx> :: <msg>
//!   METHOD <Type>::<method>
//!   EDGE <Type>::<method> force=<0|1> lt=<output lifetime> param=<name> kind=<opaque|slice|struct:<def lifetime>[:optional]>
//!   LT <Type>::<method> force=<0|1> lt=<output lifetime>          (a lifetime with an entry in the borrow map, even when it has no edges)
use diplomat_core::hir::borrowing_param::LifetimeEdgeKind;
use diplomat_core::hir::{BackendAttrSupport, BasicAttributeValidator, LoweringConfig, TypeContext};

fn main() {
    let args: Vec<String> = std::env::args().collect();
    let src = std::fs::read_to_string(&args[1]).expect("read");
    let file: syn::File = syn::parse_file(&src).expect("parse");
    let mut v = BasicAttributeValidator::new(args.get(2).map(|s| s.as_str()).unwrap_or("vf"));
    let mut s = BackendAttrSupport::default();
    s.namespacing = true;
    s.memory_sharing = true;
    s.static_slices = true;
    s.option = true;
    s.callbacks = true;
    s.traits = true;
    s.utf8_strings = true;
    s.utf16_strings = true;
    s.custom_errors = true;
    v.support = s;
    let tcx = match TypeContext::from_syn(&file, LoweringConfig::default(), v) {
        Ok(t) => t,
        Err(errs) => {
            for (ctx, e) in errs {
                println!("LOWERING-ERROR {} :: {}", ctx, e);
            }
            println!("DONE");
            return;
        }
    };
    for (_id, ty) in tcx.all_types() {
        let tname = ty.name().as_str().to_string();
        for m in ty.methods() {
            let full = format!("{}::{}", tname, m.name.as_str());
            println!("METHOD {}", full);
            for force in [false, true] {
                let mut vis = m.borrowing_param_visitor(&tcx, force);
                if let Some(ps) = &m.param_self {
                    vis.visit_param(&ps.ty.clone().into(), "this");
                }
                for p in &m.params {
                    vis.visit_param(&p.ty, p.name.as_str());
                }
                for (lt, info) in vis.borrow_map() {
                    let ltn = m.lifetime_env.fmt_lifetime(lt).to_string();
                    println!("LT {} force={} lt={}", full, force as u8, ltn);
                    for e in info.incoming_edges {
                        let kind = match e.kind {
                            LifetimeEdgeKind::OpaqueParam => "opaque".to_string(),
                            LifetimeEdgeKind::SliceParam => "slice".to_string(),
                            LifetimeEdgeKind::StructLifetime(env, def_lt, opt) => {
                                format!("struct:{}{}", env.fmt_lifetime(def_lt), if opt { ":optional" } else { "" })
                            }
                            _ => "other".to_string(),
                        };
                        println!("EDGE {} force={} lt={} param={} kind={}", full, force as u8, ltn, e.param_name, kind);
                    }
                }
            }
        }
    }
    println!("DONE");
}
