//! Exists only so that cargo builds the working tree's proc macro and runtime;
//! generated bridge crates are then compiled with plain rustc against these artifacts.
pub use diplomat_runtime::DiplomatWrite;
