#!/usr/bin/env python3
"""Re-run the kept benign refactors (benign/<name>/patch.diff) against the current checks: every quick tier must hold.
  benignregress.py [name ...]
A scratch worktree of /repo HEAD per patch under /tmp/benignrg, removed afterwards; results in benign/regress.json."""
import hashlib, json, os, shutil, subprocess, sys, time

VERIF = os.path.dirname(os.path.dirname(os.path.abspath(__file__)))
WT = "/tmp/benignrg"
CHECKS = ["C%02d" % i for i in range(1, 18)]


def sh(cmd, cwd=None, timeout=7200, env=None):
    e = dict(os.environ); e.update({"CARGO_NET_OFFLINE": "true"}); e.update(env or {})
    p = subprocess.run(cmd, shell=True, cwd=cwd, env=e, stdout=subprocess.PIPE, stderr=subprocess.STDOUT, timeout=timeout)
    return p.returncode, p.stdout.decode("utf-8", "replace")


def one(name):
    wt = os.path.join(WT, name)
    sh("git -C /repo worktree remove --force %s" % wt)
    shutil.rmtree(wt, ignore_errors=True)
    os.makedirs(WT, exist_ok=True)
    sh("git -C /repo worktree add --detach %s HEAD" % wt)
    res = {"runs": {}}
    try:
        rc, o = sh("git apply --3way %s" % os.path.join(VERIF, "benign", name, "patch.diff"), cwd=wt)
        if rc != 0 or "conflict" in o.lower():
            res["status"] = "patch no longer applies"
            res["detail"] = o[-300:]
            return res
        for c in CHECKS:
            rc, o = sh("./vf check %s --tier quick" % c, cwd=VERIF, env={"VERIF_REPO": wt})
            lines = [l for l in o.splitlines() if l.startswith(("VIOLATION", "  ->", "[" + c))]
            res["runs"][c] = {"rc": rc, "first": lines[:3] if rc != 0 else lines[-1:]}
        res["status"] = "all held" if all(r["rc"] == 0 for r in res["runs"].values()) else "ALARM"
        return res
    finally:
        key = hashlib.sha1(wt.encode()).hexdigest()[:8]
        sh("git -C /repo worktree remove --force %s" % wt)
        shutil.rmtree(wt, ignore_errors=True)
        cache = os.path.join(VERIF, ".cache")
        for d in os.listdir(cache):
            if key in d:
                shutil.rmtree(os.path.join(cache, d), ignore_errors=True)
        shutil.rmtree(os.path.join(cache, "work", key), ignore_errors=True)


def main():
    names = sys.argv[1:] or sorted(d for d in os.listdir(os.path.join(VERIF, "benign")) if os.path.isdir(os.path.join(VERIF, "benign", d)))
    out_p = os.path.join(VERIF, "benign", "regress.json")
    out = json.load(open(out_p)) if os.path.exists(out_p) else {}
    head = subprocess.run("git -C /repo rev-parse --short HEAD", shell=True, stdout=subprocess.PIPE).stdout.decode().strip()
    for n in names:
        r = one(n)
        r["repo_head"] = head
        out[n] = r
        print(n, r["status"], [c for c, x in r["runs"].items() if x["rc"] != 0], flush=True)
        json.dump(out, open(out_p, "w"), indent=1, sort_keys=True)
    return 0


if __name__ == "__main__":
    sys.exit(main())
