#!/usr/bin/env python3
"""Regenerates /verif/MANIFEST.json from the table below (single source of truth)."""
import json, os
VERIF = os.path.dirname(os.path.dirname(os.path.abspath(__file__)))
TRUST = "trusted: rustc, gcc/g++ 12, node 20, Miri, ASan/UBSan/LSan, valgrind; the generators, models and parsers under /verif/engine; x86-64 Linux only"
CLAIMED = {
 "C01": ("exploration", "differential execution of generated bridge crates: C11 driver against freshly generated headers vs. event log written by the Rust method bodies, compared record-by-record with the script's prediction (callbacks with Option / slice / string / struct arguments and Option / enum / struct returns; every third program with traits whose vtables the driver implements); ASan+UBSan always, valgrind on a subset", "differential execution against a scripted event-log oracle under ASan/UBSan/valgrind", "bridgegen+cdrv", "3 C01"),
 "C03": ("exploration", "seeded random histories over runtime FFI types with a drop-counting monitor, run natively (debug/release), under rustc ASan+LSan, valgrind memcheck and Miri; plus generated bridges (real proc macro) driven by scripted histories through the generated C API (gcc ASan+UBSan, valgrind subset; callbacks and foreign trait objects with destructors), the generated C++ owning wrappers (g++ ASan) and a Rust foreign-caller driver interpreted by Miri, with a NEW/DROP/CBDROP conservation checker over every observed event log; objects given to callbacks for good, two callbacks per method, allocation-failure injection for the Rust-owned writer (one scenario per process)", "drop-count monitor + ASan/LSan + valgrind + Miri on random conversion histories", "rtmon", "3 C03"),
 "C12": ("fault_enumeration", "grow() is the fault injector: every consumed fail/exact/more pattern x every chunk sequence up to the bound x initial capacities, model compared after every write; exact-size heap buffers under ASan/valgrind/Miri, canary monitor natively; plus write-heavy generated bridges through the generated C and C++ APIs (ASan) and a Rust foreign-caller driver under Miri; allocation-failure injection (a refused growth ends in the allocation-failure abort or is reported with the buffer still owned once); flushes in mid-output", "scripted grow-fault enumeration against an executable model, under ASan/valgrind/Miri", "rtmon", "3 C12"),
 "C16": ("exploration", "exhaustive comparison of diplomat_is_str with an independent RFC 3629 automaton (all strings <=3 bytes, all 4-byte strings with lead F0..F7) and round-trip monitors over all element types and lengths, under ASan/valgrind/Miri", "exhaustive differential run against an RFC 3629 automaton; round-trip monitors under ASan/valgrind/Miri", "rtmon", "3 C16"),
}
CLAIMED.update(json.load(open(os.path.join(VERIF, "tools", "claimed_extra.json"))) if os.path.exists(os.path.join(VERIF, "tools", "claimed_extra.json")) else {})
props = [json.loads(l) for l in open(os.path.join(VERIF, "properties.jsonl"))]
checks = []
for p in props:
    pid = p["id"]
    if pid not in CLAIMED:
        continue
    cat, text, tech, engine, ref = CLAIMED[pid]
    checks.append({"property_id": pid, "quick_cmd": "./vf check %s --tier quick" % pid, "thorough_cmd": "./vf check %s --tier thorough" % pid,
                   "evidence_file": "/verif/evidence/%s.json" % pid, "replay_cmd_template": "./vf replay {path}", "engine": engine,
                   "level_claimed": {"category": cat, "text": text, "design_ref": "DESIGN.md §" + ref}, "level_note": TRUST, "technique": tech})
na = [{"property_id": p["id"], "reason": "check not built yet (implementation in progress, see DESIGN.md §3c build order)"} for p in props if p["id"] not in CLAIMED]
m = {"version": 1, "setup_cmd": "./vf setup",
     "hooks": {"guard": "--cfg diplomat_verif", "enable": "none needed: all observation points are public (CLI, public diplomat_core API, runtime pub items and #[no_mangle] symbols); no hook commits exist",
               "baseline_off_cmd": "cd /repo && cargo test --workspace --no-fail-fast --offline", "source_commits": [], "add_only": True},
     "engines": [{"name": "rtmon", "path": "/verif/rs/rtmon", "serves_properties": ["C03", "C12", "C16"], "kind_free_text": "Rust harness over diplomat-runtime run natively, under ASan, valgrind and Miri"},
                {"name": "wasm32-e2e", "path": "/verif/engine/wasm32.py", "serves_properties": ["C04", "C08", "C10", "C11"], "kind_free_text": "private wasm32 sysroot (libcore, liballoc, compiler_builtins stub from rust-src), the tree's runtime compiled for wasm32 with a regenerated no_std root, a support crate (guarded bump allocator, panic handler, mem*), generated bridges + generated JS driven in node (engine/emit_js.py)"},
                {"name": "mirileg", "path": "/verif/rs/mirileg", "serves_properties": ["C03", "C12"], "kind_free_text": "cargo crate whose bins are generated bridges + Rust foreign-caller drivers (engine/emit_rsdrv.py), interpreted by Miri"},
                 {"name": "bridgegen", "path": "/verif/engine", "serves_properties": sorted(k for k in CLAIMED if k not in ("C16",)), "kind_free_text": "python3 grammar-based bridge generator, call-script oracle, C/C++/JS drivers, output parsers and reference models"}],
     "checks": checks, "not_applicable": na,
     "notes": "Runtime monitoring and sanitizers only. fix commits in /repo: see known_findings.txt (`fixed:` lines)."}
json.dump(m, open(os.path.join(VERIF, "MANIFEST.json"), "w"), indent=1)
print("claimed:", [c["property_id"] for c in checks], "n/a:", [n["property_id"] for n in na])
