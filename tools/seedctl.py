#!/usr/bin/env python3
"""Bookkeeping for seeded defects produced by independent sub-agents.
  seedctl.py confirm <name>           re-verify the agent's claims (tests green with patch, demo fails with / passes without)
  seedctl.py try <name> <prop> [tier] run our check against the patched scratch worktree (VERIF_REPO)
  seedctl.py keep <name>              copy patch/demo/meta into /verif/seeded/<name>
  seedctl.py drop <name>              remove the scratch worktree and cached build output for it
"""
import hashlib, json, os, shutil, subprocess, sys, time

WT = "/tmp/seed"
OUT = "/tmp/seed-out"
VERIF = os.path.dirname(os.path.dirname(os.path.abspath(__file__)))


def sh(cmd, cwd=None, timeout=3600, env=None):
    e = dict(os.environ); e.update({"CARGO_NET_OFFLINE": "true"}); e.update(env or {})
    p = subprocess.run(cmd, shell=True, cwd=cwd, env=e, stdout=subprocess.PIPE, stderr=subprocess.STDOUT, timeout=timeout)
    return p.returncode, p.stdout.decode("utf-8", "replace")


def confirm(name):
    wt, out = os.path.join(WT, name), os.path.join(OUT, name)
    res = {}
    rc, diff = sh("git diff", cwd=wt)
    patch = open(os.path.join(out, "patch.diff")).read()
    res["patch_matches_worktree"] = diff.strip() == patch.strip()
    rc, o = sh("git diff --stat | tail -1", cwd=wt); res["diffstat"] = o.strip()
    t = time.time()
    rc, o = sh("cargo test --workspace --no-fail-fast --offline -j 8 2>&1 | grep -E '^test result|FAILED|error' ", cwd=wt)
    passed = sum(int(l.split(" passed")[0].split()[-1]) for l in o.splitlines() if l.startswith("test result"))
    failed = sum(int(l.split(" failed")[0].split()[-1]) for l in o.splitlines() if l.startswith("test result"))
    res["tests_with_patch"] = {"passed": passed, "failed": failed, "secs": round(time.time() - t)}
    rc1, o1 = sh("bash demo/run.sh %s" % wt, cwd=out)
    res["demo_with_patch_rc"] = rc1
    res["demo_with_patch_tail"] = o1[-600:]
    rc0, o0 = sh("bash demo/run.sh /repo", cwd=out)
    res["demo_without_patch_rc"] = rc0
    res["demo_without_tail"] = o0[-300:]
    res["confirmed"] = bool(res["patch_matches_worktree"] and failed == 0 and passed >= 69 + 4 and rc1 != 0 and rc0 == 0)
    json.dump(res, open(os.path.join(out, "confirm.json"), "w"), indent=1)
    print(json.dumps(res, indent=1))
    return 0 if res["confirmed"] else 1


def try_(name, prop, tier="quick"):
    wt = os.path.join(WT, name)
    t = time.time()
    rc, o = sh("./vf check %s --tier %s" % (prop, tier), cwd=VERIF, env={"VERIF_REPO": wt})
    lines = [l for l in o.splitlines() if l.startswith(("VIOLATION", "KNOWN", "INCONCLUSIVE", "[" + prop))]
    print("\n".join(lines[:12]))
    print("rc=%d wall=%ds" % (rc, time.time() - t))
    rec = {"check": prop, "tier": tier, "rc": rc, "detected": rc == 1, "first": lines[:3]}
    os.makedirs(os.path.join(OUT, name), exist_ok=True)
    p = os.path.join(OUT, name, "tried.json")
    d = json.load(open(p)) if os.path.exists(p) else []
    d.append(rec); json.dump(d, open(p, "w"), indent=1)
    return rc


def keep(name):
    src, dst = os.path.join(OUT, name), os.path.join(VERIF, "seeded", name)
    if os.path.exists(dst):
        shutil.rmtree(dst)
    os.makedirs(dst)
    shutil.copy(os.path.join(src, "patch.diff"), dst)
    shutil.copytree(os.path.join(src, "demo"), os.path.join(dst, "demo"), ignore=shutil.ignore_patterns("target", "*.a", "*.so", "*.o"))
    meta = json.load(open(os.path.join(src, "meta.json")))
    for f in ("confirm.json", "tried.json"):
        p = os.path.join(src, f)
        if os.path.exists(p):
            meta[f[:-5]] = json.load(open(p))
    json.dump(meta, open(os.path.join(dst, "meta.json"), "w"), indent=1)
    print("kept", dst)


def apply(name):
    """fresh scratch worktree of /repo HEAD with the kept patch applied"""
    wt = os.path.join(WT, name)
    if not os.path.exists(wt):
        rc, o = sh("git -C /repo worktree add -q --detach %s HEAD" % wt)
        if rc:
            print(o); return 1
    patch = os.path.join(VERIF, "seeded", name, "patch.diff")
    if not os.path.exists(patch):
        patch = os.path.join(OUT, name, "patch.diff")          # not kept yet: the agent's own copy
    rc, o = sh("git checkout -q -- . && git apply %s" % patch, cwd=wt)
    print(o or "applied %s in %s" % (name, wt))
    os.makedirs(os.path.join(OUT, name), exist_ok=True)
    return rc


def drop(name):
    wt = os.path.join(WT, name)
    sh("git -C /repo worktree remove --force %s" % wt)
    key = hashlib.sha1(wt.encode()).hexdigest()[:8]
    sh("rm -rf %s/.cache/*-%s %s/.cache/crates/*-%s %s/.cache/work/%s" % (VERIF, key, VERIF, key, VERIF, key))
    print("dropped", name)


if __name__ == "__main__":
    a = sys.argv[1:]
    sys.exit({"confirm": confirm, "try": try_, "keep": keep, "drop": drop, "apply": apply}[a[0]](*a[1:]) or 0)
