#!/usr/bin/env python3
"""Re-run the kept seeded defects against the *current* checks and the *current* /repo HEAD.
  seedregress.py [name ...]        (default: every directory under /verif/seeded)
For each seed: a scratch worktree of /repo HEAD under /tmp/seedrg/<name>, the kept patch applied with --3way, the check that
detected it when it was kept (meta.json "tried") run with VERIF_REPO pointing at the worktree; the worktree and its build
output are removed afterwards.  Results: /verif/seeded/regress.json (name -> applies / detected / rc / first lines).
Evidence and replays of these runs stay under .cache/alt-<key> (engine/common.py), never in /verif/evidence."""
import hashlib, json, os, shutil, subprocess, sys, time

VERIF = os.path.dirname(os.path.dirname(os.path.abspath(__file__)))
WT = "/tmp/seedrg"


def sh(cmd, cwd=None, timeout=7200, env=None):
    e = dict(os.environ); e.update({"CARGO_NET_OFFLINE": "true"}); e.update(env or {})
    p = subprocess.run(cmd, shell=True, cwd=cwd, env=e, stdout=subprocess.PIPE, stderr=subprocess.STDOUT, timeout=timeout)
    return p.returncode, p.stdout.decode("utf-8", "replace")


def one(name):
    sd = os.path.join(VERIF, "seeded", name)
    meta = json.load(open(os.path.join(sd, "meta.json")))
    tried = [t for t in meta.get("tried", []) if t.get("detected")]
    plan = [(tried[-1]["check"], tried[-1]["tier"])] if tried else []
    # fall back to the seed's own property, quick then thorough (also used when the recorded check no longer fires)
    for cand in ((meta["property"], "quick"), (meta["property"], "thorough")):
        if cand not in plan:
            plan.append(cand)
    wt = os.path.join(WT, name)
    sh("git -C /repo worktree remove --force %s" % wt)
    shutil.rmtree(wt, ignore_errors=True)
    os.makedirs(WT, exist_ok=True)
    rc, o = sh("git -C /repo worktree add --detach %s HEAD" % wt)
    res = {}
    try:
        rc, o = sh("git apply --3way %s" % os.path.join(sd, "patch.diff"), cwd=wt)
        if rc != 0:
            rc, o = sh("git apply %s" % os.path.join(sd, "patch.diff"), cwd=wt)
        if rc != 0 or "conflict" in o.lower():
            res.update(status="patch no longer applies", detail=o[-400:])
            return res
        res["attempts"] = []
        for check, tier in plan:
            t = time.time()
            rc, o = sh("./vf check %s --tier %s" % (check, tier), cwd=VERIF, env={"VERIF_REPO": wt})
            lines = [l for l in o.splitlines() if l.startswith(("VIOLATION", "  ->", "[" + check, "INCONCLUSIVE"))]
            res["attempts"].append({"check": check, "tier": tier, "rc": rc, "secs": round(time.time() - t)})
            res.update(status="ran", check=check, tier=tier, rc=rc, detected=(rc == 1), first=lines[:4], verdict=[l for l in lines if l.startswith("[")][-1:])
            if rc == 1:
                break
        return res
    finally:
        key = hashlib.sha1(wt.encode()).hexdigest()[:8]
        sh("git -C /repo worktree remove --force %s" % wt)
        shutil.rmtree(wt, ignore_errors=True)
        cache = os.path.join(VERIF, ".cache")
        for d in os.listdir(cache):
            if key in d:
                shutil.rmtree(os.path.join(cache, d), ignore_errors=True)
        shutil.rmtree(os.path.join(cache, "work", key), ignore_errors=True)


def main():
    names = sys.argv[1:] or sorted(d for d in os.listdir(os.path.join(VERIF, "seeded")) if os.path.isdir(os.path.join(VERIF, "seeded", d)))
    out_p = os.path.join(VERIF, "seeded", "regress.json")
    out = json.load(open(out_p)) if os.path.exists(out_p) else {}
    head = subprocess.run("git -C /repo rev-parse --short HEAD", shell=True, stdout=subprocess.PIPE).stdout.decode().strip()
    for n in names:
        r = one(n)
        r["repo_head"] = head
        out[n] = r
        print(n, json.dumps(r)[:300], flush=True)
        json.dump(out, open(out_p, "w"), indent=1, sort_keys=True)
    bad = [n for n in names if not out[n].get("detected")]
    print("not detected / not applicable:", bad)
    return 0


if __name__ == "__main__":
    sys.exit(main())
